//! Stand-in for hashbrown::HashMap (CBMC cannot get through the real one; the witness
//! accessors under verification never touch the map).
use core::marker::PhantomData;
pub struct HashMap<K, V> {
    _p: PhantomData<(K, V)>,
}
impl<K, V> HashMap<K, V> {
    pub const fn new() -> Self {
        Self { _p: PhantomData }
    }
    pub fn get(&self, _k: &K) -> Option<&V> {
        None
    }
}
