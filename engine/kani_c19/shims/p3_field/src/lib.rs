//! Minimal stand-in for the two p3_field items `circuit/src/ops/context.rs` names.
//! (The real trait bound is only a marker for the accessors: they use `Eq`, `Debug`, `dup`.)
pub trait PrimeCharacteristicRing: Sized + Clone + Dup + core::fmt::Debug {}
pub trait Dup: Clone {
    fn dup(&self) -> Self;
}
impl<T: Copy + Clone> Dup for T {
    #[inline(always)]
    fn dup(&self) -> Self {
        *self
    }
}
