//! E4: Kani (CBMC) harnesses over the REAL text of /repo/circuit/src/ops/context.rs
//! (`ExecutionContext::{get_witness,set_witness}`, the accessors every non-primitive
//! executor uses), included with #[path]. Everything context.rs imports is replaced by the
//! minimal shims below (types only; no behaviour of the accessors is shimmed).
#![allow(unused, clippy::all)]
extern crate alloc;

pub mod types {
    #[derive(Debug, Clone, Copy, PartialEq, Eq, Hash, PartialOrd, Ord)]
    pub struct WitnessId(pub u32);
    #[derive(Debug, Clone, Copy, PartialEq, Eq, Hash, PartialOrd, Ord)]
    pub struct NonPrimitiveOpId(pub u32);
}

#[derive(Debug)]
pub enum CircuitError {
    WitnessNotSet { witness_id: types::WitnessId },
    WitnessIdOutOfBounds { witness_id: types::WitnessId },
    WitnessConflict { witness_id: types::WitnessId, existing: alloc::string::String, new: alloc::string::String, expr_ids: alloc::vec::Vec<u32> },
    NonPrimitiveOpMissingPrivateData { operation_index: types::NonPrimitiveOpId },
    InvalidNonPrimitiveOpConfiguration { op: ops::npo::NpoTypeId },
}

pub mod ops {
    pub mod executor {
        use core::any::Any;
        use core::fmt::Debug;
        pub trait OpExecutionState: Any + Send + Sync + Debug {}
        impl<T: Any + Send + Sync + Debug> OpExecutionState for T {}
        impl dyn OpExecutionState {
            pub fn downcast_ref<T: 'static>(&self) -> Option<&T> {
                let any: &dyn Any = self;
                any.downcast_ref()
            }
            pub fn downcast_mut<T: 'static>(&mut self) -> Option<&mut T> {
                let any: &mut dyn Any = self;
                any.downcast_mut()
            }
        }
    }
    pub mod npo {
        use alloc::boxed::Box;
        #[derive(Debug, Clone, PartialEq, Eq, PartialOrd, Ord)]
        pub struct NpoTypeId(pub u32);
        pub struct NpoConfig;
        pub struct NpoPrivateData;
        /// Stand-in for `BTreeMap<NpoTypeId, Box<dyn OpExecutionState>>` with the four methods
        /// context.rs calls (never reached by the harnesses).
        pub struct OpStateMap;
        impl OpStateMap {
            pub const fn new() -> Self {
                Self
            }
            pub fn get(&self, _k: &NpoTypeId) -> Option<&Box<dyn super::executor::OpExecutionState>> {
                None
            }
            pub fn get_mut(&mut self, _k: &NpoTypeId) -> Option<&mut Box<dyn super::executor::OpExecutionState>> {
                None
            }
            pub fn contains_key(&self, _k: &NpoTypeId) -> bool {
                false
            }
            pub fn insert(&mut self, _k: NpoTypeId, _v: Box<dyn super::executor::OpExecutionState>) {}
        }
    }
    #[path = "/repo/circuit/src/ops/context.rs"]
    pub mod context;
}

#[cfg(kani)]
mod proofs {
    use hashbrown::HashMap;

    use crate::CircuitError;
    use crate::ops::context::ExecutionContext;
    use crate::ops::npo::OpStateMap;
    use crate::types::{NonPrimitiveOpId, WitnessId};

    /// Field stand-in: the accessors only copy and compare values.
    #[derive(Debug, Clone, Copy, PartialEq, Eq)]
    struct F(u32);
    impl p3_field::PrimeCharacteristicRing for F {}

    const N: usize = 4;

    /// Stub for `alloc::fmt::format` (the conflict error builds two messages with `format!`).
    fn stub_format(_args: core::fmt::Arguments<'_>) -> alloc::string::String {
        alloc::string::String::new()
    }

    fn any_witness() -> ([Option<F>; N], usize) {
        let len: usize = kani::any();
        kani::assume(len <= N);
        let mut w = [None; N];
        for slot in w.iter_mut() {
            if kani::any() {
                *slot = Some(F(kani::any()));
            }
        }
        (w, len)
    }

    /// get_witness: Ok(v) exactly when the slot exists and is set; Err(WitnessNotSet)
    /// otherwise; never undefined behaviour (CBMC checks the unchecked accesses, if any).
    #[kani::proof]
    #[kani::unwind(6)]
    #[kani::stub(alloc::fmt::format, stub_format)]
    fn get_witness_total() {
        let (mut w, len) = any_witness();
        let idx: u32 = kani::any();
        let expected = if (idx as usize) < len { w[idx as usize] } else { None };
        let private_data = [];
        let configs = HashMap::new();
        let mut op_states = OpStateMap::new();
        let ctx = ExecutionContext::<F>::new(&mut w[..len], &private_data, &configs, NonPrimitiveOpId(0), &mut op_states);
        let r = ctx.get_witness(WitnessId(idx));
        match (&r, expected) {
            (Ok(v), Some(e)) => assert!(*v == e),
            (Err(CircuitError::WitnessNotSet { witness_id }), None) => assert!(witness_id.0 == idx),
            _ => panic!("get_witness: wrong outcome"),
        }
        kani::cover!(expected.is_none() && (idx as usize) < len, "unset slot reached");
        kani::cover!((idx as usize) >= len, "out-of-range slot reached");
        kani::cover!(expected.is_some(), "set slot reached");
        core::mem::forget(r);
    }

    /// set_witness: out of range -> Err(WitnessIdOutOfBounds); unset -> stored; equal -> Ok;
    /// different -> Err(WitnessConflict) and the slot is unchanged.
    #[kani::proof]
    #[kani::unwind(6)]
    #[kani::stub(alloc::fmt::format, stub_format)]
    fn set_witness_total() {
        let (mut w, len) = any_witness();
        let before = w;
        let idx: u32 = kani::any();
        let v = F(kani::any());
        let private_data = [];
        let configs = HashMap::new();
        let mut op_states = OpStateMap::new();
        let in_range = (idx as usize) < len;
        let r: Result<(), u8> = {
            let mut ctx = ExecutionContext::<F>::new(&mut w[..len], &private_data, &configs, NonPrimitiveOpId(0), &mut op_states);
            match ctx.set_witness(WitnessId(idx), v) {
                Ok(()) => Ok(()),
                Err(e) => {
                    let code = match &e {
                        CircuitError::WitnessIdOutOfBounds { .. } => 1u8,
                        CircuitError::WitnessConflict { .. } => 2u8,
                        _ => 3u8,
                    };
                    core::mem::forget(e);
                    Err(code)
                }
            }
        };
        if !in_range {
            assert!(r == Err(1));
        } else {
            match before[idx as usize] {
                None => {
                    assert!(r == Ok(()));
                    assert!(w[idx as usize] == Some(v));
                }
                Some(e) if e == v => {
                    assert!(r == Ok(()));
                    assert!(w[idx as usize] == Some(e));
                }
                Some(e) => {
                    assert!(r == Err(2));
                    assert!(w[idx as usize] == Some(e));
                }
            }
        }
        kani::cover!(!in_range, "out-of-range write reached");
        kani::cover!(in_range && before[idx as usize].is_some() && r.is_err(), "conflict reached");
        kani::cover!(in_range && before[idx as usize].is_none(), "fresh write reached");
    }
}
