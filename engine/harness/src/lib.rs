//! Shared helpers for /verif harness binaries.
pub mod common;
pub mod prog;
pub mod airsym;
pub mod tables;
