//! Shared helpers: CLI args, evidence shards, obligations bookkeeping.
use std::collections::{BTreeMap, HashMap};
use std::time::Instant;

use serde_json::{Value, json};
pub use symfield::*;

#[derive(Clone, Debug)]
pub struct Args {
    pub tier: String,
    pub seed: u64,
    pub shard: usize,
    pub nshards: usize,
    pub out: String,
    pub replay: Option<String>,
    pub extra: BTreeMap<String, String>,
}

pub fn parse_args() -> Args {
    let mut a = Args {
        tier: "quick".into(),
        seed: 0,
        shard: 0,
        nshards: 1,
        out: "/dev/null".into(),
        replay: None,
        extra: BTreeMap::new(),
    };
    let v: Vec<String> = std::env::args().skip(1).collect();
    let mut i = 0;
    while i < v.len() {
        let k = v[i].as_str();
        let val = v.get(i + 1).cloned().unwrap_or_default();
        match k {
            "--tier" => a.tier = val,
            "--seed" => a.seed = val.parse().unwrap_or(0),
            "--shard" => {
                let (x, y) = val.split_once('/').expect("--shard i/n");
                a.shard = x.parse().unwrap();
                a.nshards = y.parse().unwrap();
            }
            "--out" => a.out = val,
            "--replay" => a.replay = Some(val),
            _ => {
                a.extra.insert(k.trim_start_matches("--").to_string(), val);
            }
        }
        i += 2;
    }
    a
}

/// Per-shard result accumulator; merged by /verif/check.
pub struct Shard {
    pub t0: Instant,
    pub counters: BTreeMap<String, f64>,
    pub samples: Vec<Value>,
    pub violations: Vec<Value>,
    pub undecided: Vec<Value>,
    pub functions: Vec<String>,
    pub notes: Vec<String>,
}

impl Default for Shard {
    fn default() -> Self {
        Self::new()
    }
}

impl Shard {
    pub fn new() -> Self {
        Self {
            t0: Instant::now(),
            counters: BTreeMap::new(),
            samples: Vec::new(),
            violations: Vec::new(),
            undecided: Vec::new(),
            functions: Vec::new(),
            notes: Vec::new(),
        }
    }
    pub fn bump(&mut self, k: &str) {
        self.add(k, 1.0);
    }
    pub fn add(&mut self, k: &str, v: f64) {
        *self.counters.entry(k.to_string()).or_insert(0.0) += v;
    }
    pub fn sample(&mut self, v: Value, cap: usize) {
        if self.samples.len() < cap {
            self.samples.push(v);
        }
    }
    pub fn absorb_slow(&mut self, s: &Solver) {
        for (dt, label, res) in &s.slow {
            self.notes.push(format!("slow query {dt:.1}s [{label}] -> {res}"));
        }
    }
    pub fn absorb_solver(&mut self, prefix: &str, st: &SolverStats) {
        self.add(&format!("{prefix}.queries"), st.queries as f64);
        self.add(&format!("{prefix}.unsat"), st.unsat as f64);
        self.add(&format!("{prefix}.sat"), st.sat as f64);
        self.add(&format!("{prefix}.unknown"), st.unknown as f64);
        self.add(&format!("{prefix}.time_s"), st.solver_time_s);
        let k = format!("{prefix}.max_query_s");
        let cur = self.counters.get(&k).copied().unwrap_or(0.0);
        if st.max_query_s > cur {
            self.counters.insert(k, st.max_query_s);
        }
    }
    pub fn write(&self, path: &str) {
        let v = json!({
            "wall_s": self.t0.elapsed().as_secs_f64(),
            "counters": self.counters,
            "samples": self.samples,
            "violations": self.violations,
            "undecided": self.undecided,
            "functions": self.functions,
            "notes": self.notes,
        });
        if let Some(dir) = std::path::Path::new(path).parent() {
            let _ = std::fs::create_dir_all(dir);
        }
        std::fs::write(path, serde_json::to_string_pretty(&v).unwrap()).expect("write shard");
    }
}

/// Outcome of one obligation `hyps ⟹ goal`.
pub enum Verdict {
    Holds,
    Cex(BTreeMap<u32, u64>),
    Undecided(String),
}

/// Discharge `hyps ⟹ goal` with rewriting by the equalities among `hyps` first (sound: the
/// hypotheses stay asserted), then the solver.
pub fn discharge(s: &mut Solver, rw: &mut Rewriter, hyps: &[Fm], goal: &Fm, sh: &mut Shard, tag: &str) -> Verdict {
    let t_trace = std::time::Instant::now();
    let v = discharge_inner(s, rw, hyps, goal, sh, tag);
    if std::env::var("VERIF_TRACE").is_ok() {
        eprintln!("[trace] {tag} {} in {:.2}s", match &v { Verdict::Holds => "holds", Verdict::Cex(_) => "cex", Verdict::Undecided(_) => "undecided" }, t_trace.elapsed().as_secs_f64());
    }
    v
}

fn discharge_inner(s: &mut Solver, rw: &mut Rewriter, hyps: &[Fm], goal: &Fm, sh: &mut Shard, tag: &str) -> Verdict {
    sh.bump(&format!("{tag}.obligations"));
    s.label = tag.to_string();
    let g = rw.canon_fm(goal);
    if matches!(g, Fm::True) {
        // Both sides became the same hash-consed term after rewriting with the hypotheses'
        // equalities (congruence closure): discharged without a solver call. Sanity: on the
        // shadow point (where the hypotheses hold on honest paths) the two sides agree.
        sh.bump(&format!("{tag}.syntactic_after_rewrite"));
        sh.bump(&format!("{tag}.unsat"));
        sh.bump(&format!("{tag}.unsat_by_congruence_rewriting"));
        return Verdict::Holds;
    }
    // the shadow point is a free counterexample candidate: check it before any solver work
    if let Some(m) = shadow_counterexample(hyps, goal) {
        sh.bump(&format!("{tag}.sat"));
        sh.bump(&format!("{tag}.sat_at_shadow_point"));
        return Verdict::Cex(m);
    }
    // very large terms: z3 expands define-fun macros eagerly and does not come back; refuse
    {
        let mut all = Vec::new();
        g.roots(&mut all);
        hyps.iter().for_each(|f| f.roots(&mut all));
        if expansion_size(&all, 4_000_000) >= 4_000_000 {
            sh.bump(&format!("{tag}.undecided"));
            sh.bump(&format!("{tag}.too_large_for_solver"));
            return Verdict::Undecided("terms too large for the SMT back end".into());
        }
    }
    // stage 1: the rewritten goal alone, in a fresh solver context that contains only the goal's
    // cone (z3's sum-of-monomials normalisation must not see the whole program's definitions).
    // `unsat` means the goal is a polynomial identity mod p after rewriting with the hypotheses'
    // equalities, hence a consequence of `hyps`.
    let mut groots = Vec::new();
    g.roots(&mut groots);
    if expansion_size(&groots, 200_000) < 200_000 {
        let mut s1 = Solver::new(s.kind, s.p, 3000);
        let r1 = s1.query_som(&[Fm::not(g.clone())]);
        s.stats.queries += 1;
        s.stats.solver_time_s += s1.stats.solver_time_s;
        if let SatResult::Unsat = r1 {
            s.stats.unsat += 1;
            sh.bump(&format!("{tag}.unsat"));
            sh.bump(&format!("{tag}.unsat_stage1_identity"));
            return Verdict::Holds;
        }
    }
    // stage N: sparse polynomial normal form of the (cross-multiplied) rewritten goal; the zero
    // polynomial is an identity mod p (in-engine ring normalisation, no solver call)
    if let Fm::Eq(gl, gr) = &g {
        let mut ctx = PolyCtx::new(s.p);
        if let Some(d) = ctx.diff(*gl, *gr) {
            if d.is_zero() {
                sh.bump(&format!("{tag}.unsat"));
                sh.bump(&format!("{tag}.unsat_by_polynomial_normal_form"));
                return Verdict::Holds;
            }
        }
    }
    let mut roots = Vec::new();
    g.roots(&mut roots);
    hyps.iter().for_each(|f| f.roots(&mut roots));
    goal.roots(&mut roots);
    s.define(&roots);
    // stage 1b: plus the non-equational hypotheses (non-zero facts, disequalities) when few
    let side: Vec<Fm> = hyps.iter().filter(|h| !matches!(h, Fm::Eq(..))).cloned().collect();
    if !side.is_empty() && side.len() <= 12 {
        let mut v1 = side.clone();
        v1.push(Fm::not(g.clone()));
        s.set_timeout(2000.min(s.timeout_ms));
        let r1b = s.query(&v1);
        s.set_timeout(s.timeout_ms);
        if let SatResult::Unsat = r1b {
            sh.bump(&format!("{tag}.unsat"));
            sh.bump(&format!("{tag}.unsat_stage1_identity"));
            return Verdict::Holds;
        }
    }
    // stage 1.5: search an ideal-membership certificate g·m = Σ c_i·h_i with sparse polynomial
    // division (untrusted), and let the solver validate it as a polynomial identity.
    if let Fm::Eq(gl, gr) = goal {
        if let Some(v) = try_certificate(s, hyps, (*gl, *gr)) {
            if v {
                sh.bump(&format!("{tag}.unsat"));
                sh.bump(&format!("{tag}.unsat_certificate"));
                return Verdict::Holds;
            }
        }
    }
    // shadow point: if the concrete shadow assignment satisfies every hypothesis and falsifies
    // the goal it is a counterexample already (it is replayed on the real code like any model)
    if let Some(m) = shadow_counterexample(hyps, goal) {
        sh.bump(&format!("{tag}.sat"));
        sh.bump(&format!("{tag}.sat_at_shadow_point"));
        return Verdict::Cex(m);
    }
    // stage 2: full hypotheses (asserted un-rewritten: rewriting them by themselves would
    // erase them) and the rewritten goal; stage 3: everything un-rewritten.
    let mut v: Vec<Fm> = hyps.to_vec();
    v.extend(hyps.iter().map(|h| rw.canon_fm(h)).filter(|h| !matches!(h, Fm::True)));
    v.push(Fm::not(g));
    let t_slow = std::time::Instant::now();
    let r2 = s.query(&v);
    if t_slow.elapsed().as_secs_f64() > 1.0 {
        sh.notes.push(format!("slow stage2 {tag} {:.1}s -> {}", t_slow.elapsed().as_secs_f64(), match &r2 { SatResult::Unsat => "unsat", SatResult::Sat(_) => "sat", SatResult::Unknown(_) => "unknown" }));
    }
    match r2 {
        SatResult::Unsat => {
            sh.bump(&format!("{tag}.unsat"));
            Verdict::Holds
        }
        SatResult::Sat(m) => {
            sh.bump(&format!("{tag}.sat"));
            Verdict::Cex(m)
        }
        SatResult::Unknown(why) => {
            let mut v2: Vec<Fm> = hyps.to_vec();
            v2.push(Fm::not(goal.clone()));
            match s.query(&v2) {
                SatResult::Unsat => {
                    sh.bump(&format!("{tag}.unsat"));
                    Verdict::Holds
                }
                SatResult::Sat(m) => {
                    sh.bump(&format!("{tag}.sat"));
                    Verdict::Cex(m)
                }
                SatResult::Unknown(_) => {
                    sh.bump(&format!("{tag}.undecided"));
                    Verdict::Undecided(why)
                }
            }
        }
    }
}

fn fm_holds_at_shadows(f: &Fm) -> Option<bool> {
    let sh = |h: H| with_arena(|a| a.shadow(h));
    Some(match f {
        Fm::True => true,
        Fm::False => false,
        Fm::Eq(a, b) => sh(*a) == sh(*b),
        Fm::Ne(a, b) => sh(*a) != sh(*b),
        Fm::And(v) => {
            for x in v {
                if !fm_holds_at_shadows(x)? {
                    return Some(false);
                }
            }
            true
        }
        Fm::Or(v) => {
            for x in v {
                if fm_holds_at_shadows(x)? {
                    return Some(true);
                }
            }
            false
        }
        Fm::Not(x) => !fm_holds_at_shadows(x)?,
        Fm::SumIf(_) => return None,
    })
}

/// The shadow assignment as a model when it satisfies `hyps` and falsifies `goal`.
pub fn shadow_counterexample(hyps: &[Fm], goal: &Fm) -> Option<std::collections::BTreeMap<u32, u64>> {
    // UF shadows are only meaningful when produced by the real permutation; terms with Inv of a
    // zero shadow have shadow 0 by convention - hypotheses (NonZero) exclude those points.
    for h in hyps {
        if !fm_holds_at_shadows(h)? {
            return None;
        }
    }
    if fm_holds_at_shadows(goal)? {
        return None;
    }
    Some(with_arena(|a| a.var_nodes.iter().enumerate().map(|(v, n)| (v as u32, a.shadows[*n as usize])).collect()))
}

/// Variant of [`discharge`] for obligations over very large terms (whole-verifier runs): the
/// congruence stage, then the solver with the full hypotheses (original and rewritten); the
/// identity / certificate stages are skipped because their normal forms explode.
pub fn discharge_big(s: &mut Solver, rw: &mut Rewriter, hyps: &[Fm], goal: &Fm, sh: &mut Shard, tag: &str) -> Verdict {
    sh.bump(&format!("{tag}.obligations"));
    s.label = tag.to_string();
    let g = rw.canon_fm(goal);
    if matches!(g, Fm::True) {
        sh.bump(&format!("{tag}.syntactic_after_rewrite"));
        sh.bump(&format!("{tag}.unsat"));
        sh.bump(&format!("{tag}.unsat_by_congruence_rewriting"));
        return Verdict::Holds;
    }
    if let Some(m) = shadow_counterexample(hyps, goal) {
        sh.bump(&format!("{tag}.sat"));
        sh.bump(&format!("{tag}.sat_at_shadow_point"));
        return Verdict::Cex(m);
    }
    if let Fm::Eq(gl, gr) = &g {
        let mut ctx = PolyCtx::new(s.p);
        if let Some(d) = ctx.diff(*gl, *gr) {
            if d.is_zero() {
                sh.bump(&format!("{tag}.unsat"));
                sh.bump(&format!("{tag}.unsat_by_polynomial_normal_form"));
                return Verdict::Holds;
            }
        }
    }
    if let Fm::Eq(gl, gr) = goal {
        if let Some(true) = try_certificate(s, hyps, (*gl, *gr)) {
            sh.bump(&format!("{tag}.unsat"));
            sh.bump(&format!("{tag}.unsat_certificate"));
            return Verdict::Holds;
        }
    }
    // hypothesis selection: only hypotheses that share an atom (variable / uninterpreted
    // application) with the goal and whose macros stay small are sent. Dropping hypotheses is
    // sound for `unsat`; a `sat` answer under dropped hypotheses is NOT a counterexample.
    let mut groots = Vec::new();
    g.roots(&mut groots);
    goal.roots(&mut groots);
    if expansion_size(&groots, 300_000) >= 300_000 {
        sh.bump(&format!("{tag}.undecided"));
        sh.bump(&format!("{tag}.too_large_for_solver"));
        return Verdict::Undecided("goal terms too large for the SMT back end".into());
    }
    let gatoms = atoms_of(&groots, 50_000);
    let mut v: Vec<Fm> = Vec::new();
    let mut dropped = 0usize;
    for h in hyps {
        let hc = rw.canon_fm(h);
        for f in [h.clone(), hc] {
            if matches!(f, Fm::True) {
                continue;
            }
            let mut r = Vec::new();
            f.roots(&mut r);
            let small = expansion_size(&r, 100_000) < 100_000;
            let related = atoms_of(&r, 50_000).iter().any(|a| gatoms.contains(a));
            if small && related {
                v.push(f);
            } else {
                dropped += 1;
            }
        }
    }
    let complete_hyps = dropped == 0;
    v.push(Fm::not(g));
    let mut roots = Vec::new();
    v.iter().for_each(|f| f.roots(&mut roots));
    s.define(&roots);
    if !complete_hyps {
        return match s.query(&v) {
            SatResult::Unsat => {
                sh.bump(&format!("{tag}.unsat"));
                sh.bump(&format!("{tag}.unsat_solver"));
                Verdict::Holds
            }
            _ => {
                sh.bump(&format!("{tag}.undecided"));
                Verdict::Undecided("not decided with the selected hypotheses".into())
            }
        };
    }
    match s.query(&v) {
        SatResult::Unsat => {
            sh.bump(&format!("{tag}.unsat"));
            sh.bump(&format!("{tag}.unsat_solver"));
            Verdict::Holds
        }
        SatResult::Sat(m) => {
            sh.bump(&format!("{tag}.sat"));
            Verdict::Cex(m)
        }
        SatResult::Unknown(why) => {
            sh.bump(&format!("{tag}.undecided"));
            Verdict::Undecided(why)
        }
    }
}

/// Returns Some(true) when a certificate was found and validated by the solver.
pub fn try_certificate(s: &mut Solver, hyps: &[Fm], goal: (H, H)) -> Option<bool> {
    let mut ctx = PolyCtx::new(s.p);
    let g = ctx.diff(goal.0, goal.1)?;
    let mut eqs: Vec<(H, H)> = Vec::new();
    let mut hp: Vec<Poly> = Vec::new();
    let mut nonzero: Vec<Poly> = Vec::new();
    for h in hyps {
        match h {
            Fm::Eq(l, r) => {
                if let Some(d) = ctx.diff(*l, *r) {
                    if !d.is_zero() {
                        eqs.push((*l, *r));
                        hp.push(d);
                    }
                }
            }
            Fm::Ne(l, r) => {
                if let Some(d) = ctx.diff(*l, *r) {
                    if !d.is_zero() {
                        nonzero.push(d);
                    }
                }
            }
            _ => {}
        }
    }
    if hp.is_empty() {
        return None;
    }
    // the goal's own denominators are non-zero by the fraction semantics
    let mut mults: Vec<Option<Poly>> = vec![None];
    for d in &nonzero {
        mults.push(Some(d.clone()));
    }
    for d in &nonzero {
        if let Some(d2) = d.mul(d) {
            mults.push(Some(d2));
        }
    }
    for m in mults {
        let gm = match &m {
            None => g.clone(),
            Some(m) => match g.mul(m) {
                Some(x) => x,
                None => continue,
            },
        };
        if let Some((rem, cof)) = reduce(&gm, &hp) {
            if rem.is_zero() {
                return match s.certificate_check(goal, m.as_ref(), &eqs, &cof) {
                    SatResult::Unsat => Some(true),
                    _ => Some(false),
                };
            }
        }
    }
    None
}

/// Rewriter for very large hypothesis sets (whole-verifier runs): cheap orientation only.
pub fn rewriter_from_fast(p: u64, hyps: &[Fm]) -> Rewriter {
    let mut rw = Rewriter::new(p);
    for h in hyps {
        if let Fm::Eq(l, r) = h {
            rw.add_eq_fast(*l, *r);
        }
    }
    rw
}

/// Build a rewriter from the equalities in `hyps` (in order).
pub fn rewriter_from(p: u64, hyps: &[Fm], vars_only: bool) -> Rewriter {
    let mut rw = Rewriter::new(p);
    for h in hyps {
        if let Fm::Eq(l, r) = h {
            rw.add_eq(*l, *r, vars_only);
        }
    }
    rw
}

// ---------------------------------------------------------------------------------------------
// Univariate specialisation: every variable except one is fixed to its shadow value
// ---------------------------------------------------------------------------------------------

/// Evaluates arena terms as rational functions `num(t)/den(t)` of ONE variable `t` (variable id
/// `var`), all other variables being replaced by their shadow values. UF applications whose
/// arguments do not depend on `t` are the constants recorded as their shadows (the value the real
/// permutation returned on those concrete inputs); UF applications depending on `t` are opaque
/// (`None`).
pub struct Uni {
    pub var: u32,
    pub p: u64,
    /// treat every UF application as the constant recorded as its shadow, even when its
    /// arguments depend on `t` ("challenges frozen at their honest values")
    pub freeze_uf: bool,
    memo: HashMap<u32, Option<(Vec<u64>, Vec<u64>)>>,
}

fn up_trim(mut a: Vec<u64>) -> Vec<u64> {
    while a.len() > 1 && *a.last().unwrap() == 0 {
        a.pop();
    }
    if a.is_empty() {
        a.push(0);
    }
    a
}
fn up_add(a: &[u64], b: &[u64], p: u64, sub: bool) -> Vec<u64> {
    let n = a.len().max(b.len());
    let mut r = vec![0u64; n];
    for i in 0..n {
        let x = a.get(i).copied().unwrap_or(0);
        let y = b.get(i).copied().unwrap_or(0);
        r[i] = if sub { submod(x, y, p) } else { addmod(x, y, p) };
    }
    up_trim(r)
}
fn up_mul(a: &[u64], b: &[u64], p: u64) -> Vec<u64> {
    let mut r = vec![0u64; a.len() + b.len() - 1];
    for (i, x) in a.iter().enumerate() {
        if *x == 0 {
            continue;
        }
        for (j, y) in b.iter().enumerate() {
            r[i + j] = addmod(r[i + j], mulmod(*x, *y, p), p);
        }
    }
    up_trim(r)
}

impl Uni {
    pub fn new(var: u32, p: u64) -> Self {
        Self { var, p, freeze_uf: false, memo: HashMap::new() }
    }
    pub fn eval(&mut self, h: H) -> Option<(Vec<u64>, Vec<u64>)> {
        let p = self.p;
        let i = match h {
            H::C(v) => return Some((vec![v % p], vec![1])),
            H::N(i) => i,
        };
        if let Some(r) = self.memo.get(&i) {
            return r.clone();
        }
        let (node, shadow) = with_arena(|a| (a.nodes[i as usize].clone(), a.shadows[i as usize]));
        let r: Option<(Vec<u64>, Vec<u64>)> = (|| match node {
            Node::Var(v) => {
                if v == self.var { Some((vec![0, 1], vec![1])) } else { Some((vec![shadow], vec![1])) }
            }
            Node::Add(a, b) | Node::Sub(a, b) => {
                let sub = matches!(node, Node::Sub(..));
                let (na, da) = self.eval(a)?;
                let (nb, db) = self.eval(b)?;
                if da == db {
                    Some((up_add(&na, &nb, p, sub), da))
                } else {
                    Some((up_add(&up_mul(&na, &db, p), &up_mul(&nb, &da, p), p, sub), up_mul(&da, &db, p)))
                }
            }
            Node::Mul(a, b) => {
                let (na, da) = self.eval(a)?;
                let (nb, db) = self.eval(b)?;
                Some((up_mul(&na, &nb, p), up_mul(&da, &db, p)))
            }
            Node::Neg(a) => {
                let (na, da) = self.eval(a)?;
                Some((up_add(&[0], &na, p, true), da))
            }
            Node::Inv(a) => {
                let (na, da) = self.eval(a)?;
                Some((da, na))
            }
            Node::Uf { args, .. } => {
                if self.freeze_uf {
                    return Some((vec![shadow], vec![1]));
                }
                for a in args.iter() {
                    let (n, d) = self.eval(*a)?;
                    if n.len() > 1 || d.len() > 1 {
                        return None;
                    }
                }
                Some((vec![shadow], vec![1]))
            }
        })();
        // normalise constant fractions
        let r = r.map(|(n, d)| {
            if d.len() == 1 && d[0] != 1 && d[0] != 0 {
                let inv = invmod(d[0], p);
                (n.iter().map(|x| mulmod(*x, inv, p)).collect(), vec![1])
            } else {
                (n, d)
            }
        });
        if r.as_ref().map(|(n, d)| n.len() + d.len() > 4096).unwrap_or(false) {
            self.memo.insert(i, None);
            return None;
        }
        self.memo.insert(i, r.clone());
        r
    }
    /// Cross-multiplied difference polynomial of `l == r`, plus the denominators involved.
    pub fn diff(&mut self, l: H, r: H) -> Option<(Vec<u64>, Vec<Vec<u64>>)> {
        let (nl, dl) = self.eval(l)?;
        let (nr, dr) = self.eval(r)?;
        let d = up_add(&up_mul(&nl, &dr, self.p), &up_mul(&nr, &dl, self.p), self.p, true);
        let mut dens = Vec::new();
        for x in [dl, dr] {
            if x.len() > 1 {
                dens.push(x);
            }
        }
        Some((d, dens))
    }
}

/// SMT-LIB integer term of a univariate polynomial in `t` (Horner form).
pub fn up_smt(c: &[u64]) -> String {
    let mut s = format!("{}", c[c.len() - 1]);
    for k in (0..c.len() - 1).rev() {
        s = format!("(+ {} (* t {s}))", c[k]);
    }
    s
}

/// Formula `c(t) ≡ 0 (mod p)` for `t` in `[0, p)`: a linear polynomial is solved for `t`
/// (field inverse), higher degrees stay polynomial.
pub fn up_zero_smt(c: &[u64], p: u64) -> String {
    match c.len() {
        1 => (if c[0] % p == 0 { "true" } else { "false" }).to_string(),
        2 => {
            let root = mulmod(submod(0, c[0], p), invmod(c[1], p), p);
            format!("(= t {root})")
        }
        _ => format!("(= (mod {} {p}) 0)", up_smt(c)),
    }
}

pub fn up_eval(c: &[u64], t: u64, p: u64) -> u64 {
    let mut acc = 0u64;
    for k in (0..c.len()).rev() {
        acc = addmod(mulmod(acc, t, p), c[k], p);
    }
    acc
}

/// Declarations accumulated while rendering terms that contain UF applications depending on `t`.
#[derive(Default)]
pub struct UniDecls {
    pub ufs: std::collections::BTreeMap<String, usize>,
    /// `(define-fun uN () Int ...)` lines, in dependency order (shared sub-terms are named once)
    pub defs: Vec<String>,
    /// ground facts: every `t`-dependent UF application evaluated at the honest point
    pub honest: Vec<String>,
    names: HashMap<u32, String>,
}

impl Uni {
    /// SMT-LIB Int term (value in `[0, p)`) of `h` as a function of the constant `t`; UF
    /// applications that depend on `t` become named applications of declared functions.
    pub fn smt(&mut self, h: H, dc: &mut UniDecls) -> Option<String> {
        let p = self.p;
        if let Some((n, d)) = self.eval(h) {
            if d.len() == 1 {
                return Some(if n.len() == 1 { format!("{}", n[0]) } else { format!("(mod {} {p})", up_smt(&n)) });
            }
            return None;
        }
        let H::N(i) = h else { return None };
        if let Some(n) = dc.names.get(&i) {
            return Some(n.clone());
        }
        let node = with_arena(|a| a.nodes[i as usize].clone());
        let body = match node {
            Node::Uf { f, args, idx } => {
                let fname = with_arena(|a| a.uf_names[f as usize].clone());
                let name = format!("uf_{}_{}_{}", fname.replace(|c: char| !c.is_ascii_alphanumeric(), "_"), args.len(), idx);
                dc.ufs.insert(name.clone(), args.len());
                let mut parts = Vec::new();
                for a in args.iter() {
                    parts.push(self.smt(*a, dc)?);
                }
                let (shadow_args, shadow) = with_arena(|a| (args.iter().map(|x| a.shadow(*x)).collect::<Vec<_>>(), a.shadows[i as usize]));
                dc.honest.push(format!("(= ({name} {}) {shadow})", shadow_args.iter().map(|x| x.to_string()).collect::<Vec<_>>().join(" ")));
                format!("({name} {})", parts.join(" "))
            }
            Node::Add(a, b) => format!("(mod (+ {} {}) {p})", self.smt(a, dc)?, self.smt(b, dc)?),
            Node::Sub(a, b) => format!("(mod (- {} {}) {p})", self.smt(a, dc)?, self.smt(b, dc)?),
            Node::Mul(a, b) => format!("(mod (* {} {}) {p})", self.smt(a, dc)?, self.smt(b, dc)?),
            Node::Neg(a) => format!("(mod (- {}) {p})", self.smt(a, dc)?),
            Node::Inv(_) | Node::Var(_) => return None,
        };
        let name = format!("u{i}");
        dc.defs.push(format!("(define-fun {name} () Int {body})"));
        dc.names.insert(i, name.clone());
        Some(name)
    }

    /// Formula of `l == r` in `t`, plus non-constant denominators that must be non-zero.
    /// `Some(None)`: the equality holds identically (nothing to assert).
    pub fn eq_smt(&mut self, l: H, r: H, dc: &mut UniDecls, dens: &mut Vec<Vec<u64>>) -> Option<Option<String>> {
        let p = self.p;
        if let Some((d, ds)) = self.diff(l, r) {
            dens.extend(ds);
            if d.len() == 1 {
                return Some(if d[0] == 0 { None } else { Some("false".into()) });
            }
            return Some(Some(up_zero_smt(&d, p)));
        }
        let (a, b) = (self.smt(l, dc)?, self.smt(r, dc)?);
        if a == b {
            return Some(None);
        }
        Some(Some(format!("(= {a} {b})")))
    }
}
