//! Primitive tables (Const / Public / ALU) of a compiled circuit, instantiated over `SymF`
//! exactly as `BatchStarkProver::prove_all_tables` instantiates them (from the preprocessed
//! columns returned by the real `get_airs_and_degrees_with_prep`), cross-checked against the
//! AIR objects that function returns.
use p3_air::BaseAir;
use p3_baby_bear::BabyBear;
use p3_circuit::ops::PrimitiveOpType;
use p3_circuit::{Circuit, Traces};
use p3_circuit_prover::air::{AluAir, AluExtMulKind, ConstAir, PublicAir};
use p3_circuit_prover::common::{CircuitTableAir, get_airs_and_degrees_with_prep};
use p3_circuit_prover::config::BabyBearConfig;
use p3_circuit_prover::field_params::ExtractBinomialW;
use p3_circuit_prover::{ConstraintProfile, TablePacking};
use p3_field::{BasedVectorSpace, ExtensionField, Field, PrimeField64};
use symfield::*;

use crate::airsym::*;

pub type S = SymBB;

pub fn to_sym(x: BabyBear) -> S {
    S::c(x.as_canonical_u64())
}

pub struct PrimTables<const D: usize> {
    pub const_air: ConstAir<S, D>,
    pub public_air: PublicAir<S, D>,
    pub alu_air: AluAir<S, D>,
    pub const_prep: Vec<Vec<S>>,
    pub public_prep: Vec<Vec<S>>,
    pub alu_prep: Vec<Vec<S>>,
    pub log_degrees: [usize; 3],
    pub public_lanes: usize,
    pub alu_lanes: usize,
    pub min_height: usize,
    /// (kind, first op, arity) schedule of the real ALU AIR (hook `verif_params`)
    pub alu_schedule: Option<Vec<(u8, usize, usize)>>,
    pub alu_num_ops: usize,
    pub horner_k: usize,
}

fn rows_sym(m: &p3_matrix::dense::RowMajorMatrix<BabyBear>) -> Vec<Vec<S>> {
    matrix_rows(m).into_iter().map(|r| r.into_iter().map(to_sym).collect()).collect()
}

/// Build the three primitive tables for a concretely compiled circuit.
pub fn prim_tables<EB, const D: usize>(circuit: &Circuit<EB>, packing: &TablePacking) -> Result<PrimTables<D>, String>
where
    EB: Field + ExtensionField<BabyBear> + ExtractBinomialW<BabyBear>,
{
    let (airs_degrees, primitive, _np) =
        get_airs_and_degrees_with_prep::<BabyBearConfig, EB, D>(circuit, packing, &[], &[], ConstraintProfile::Standard)
            .map_err(|e| format!("get_airs_and_degrees_with_prep: {e:?}"))?;
    let min_height = packing.min_trace_height();
    let mut real_const = None;
    let mut real_public = None;
    let mut real_alu = None;
    let mut log_degrees = [0usize; 3];
    for (air, deg) in &airs_degrees {
        match air {
            CircuitTableAir::Const(a) => {
                real_const = Some(a.clone());
                log_degrees[0] = *deg;
            }
            CircuitTableAir::Public(a) => {
                real_public = Some(a.clone());
                log_degrees[1] = *deg;
            }
            CircuitTableAir::Alu(a) => {
                real_alu = Some(a.clone());
                log_degrees[2] = *deg;
            }
            CircuitTableAir::Dynamic(_) => {}
        }
    }
    let real_const = real_const.ok_or("no const air")?;
    let real_public = real_public.ok_or("no public air")?;
    let real_alu = real_alu.ok_or("no alu air")?;
    let ap = real_alu.verif_params();

    // mirror of prove_all_tables' instantiation, over SymF constants
    let conv = |v: &Vec<BabyBear>| -> Vec<S> { v.iter().copied().map(to_sym).collect() };
    let const_cols = conv(&primitive[PrimitiveOpType::Const as usize]);
    let const_air = ConstAir::<S, D>::new_with_preprocessed(const_cols.len() / 2, const_cols).with_min_height(min_height);
    let public_cols = conv(&primitive[PrimitiveOpType::Public as usize]);
    let public_air =
        PublicAir::<S, D>::new_with_preprocessed(real_public.num_ops, real_public.lanes, public_cols).with_min_height(min_height);
    let kind = match ap.ext_mul_kind {
        AluExtMulKind::Base => AluExtMulKind::Base,
        AluExtMulKind::Binomial { w } => AluExtMulKind::Binomial { w: to_sym(w) },
        AluExtMulKind::QuinticTrinomial => AluExtMulKind::QuinticTrinomial,
    };
    let alu_air = AluAir::<S, D>::from_reduction_with_preprocessed(ap.num_ops, ap.lanes, kind, conv(&ap.preprocessed), ap.horner_packed_steps)
        .with_min_height(ap.min_height);
    // the prover re-derives the ALU AIR from `primitive`: both sources must agree
    if ap.preprocessed != primitive[PrimitiveOpType::Alu as usize] {
        return Err("ALU AIR preprocessed differs from returned primitive columns".into());
    }

    // cross-check: preprocessed traces of the SymF twins equal the real AIRs' (concrete) ones
    let chk = |name: &str, real: Option<p3_matrix::dense::RowMajorMatrix<BabyBear>>, twin: Option<p3_matrix::dense::RowMajorMatrix<S>>| -> Result<Vec<Vec<S>>, String> {
        let real = real.ok_or(format!("{name}: real AIR has no preprocessed trace"))?;
        let twin = twin.ok_or(format!("{name}: twin AIR has no preprocessed trace"))?;
        let r = rows_sym(&real);
        let t = matrix_rows(&twin);
        let same = r.len() == t.len() && r.iter().zip(&t).all(|(a, b)| a.len() == b.len() && a.iter().zip(b).all(|(x, y)| x.as_const() == y.as_const() && x.is_const()));
        if !same {
            return Err(format!("{name}: twin preprocessed trace differs from the real AIR's"));
        }
        Ok(t)
    };
    let const_prep = chk("const", BaseAir::<BabyBear>::preprocessed_trace(&real_const), BaseAir::<S>::preprocessed_trace(&const_air))?;
    let public_prep = chk("public", BaseAir::<BabyBear>::preprocessed_trace(&real_public), BaseAir::<S>::preprocessed_trace(&public_air))?;
    let alu_prep = chk("alu", BaseAir::<BabyBear>::preprocessed_trace(&real_alu), BaseAir::<S>::preprocessed_trace(&alu_air))?;
    Ok(PrimTables {
        const_air,
        public_air,
        alu_air,
        const_prep,
        public_prep,
        alu_prep,
        log_degrees,
        public_lanes: real_public.lanes,
        alu_lanes: ap.lanes,
        min_height,
        alu_schedule: ap.schedule,
        alu_num_ops: ap.num_ops,
        horner_k: ap.horner_packed_steps,
    })
}

pub struct HonestMains {
    pub const_main: Vec<Vec<S>>,
    pub public_main: Vec<Vec<S>>,
    pub alu_main: Vec<Vec<S>>,
}

/// Honest main traces from the real trace generators, run on symbolic `Traces`.
pub fn honest_mains<ES, const D: usize>(t: &PrimTables<D>, traces: &Traces<ES>) -> HonestMains
where
    ES: Field + BasedVectorSpace<S>,
{
    let c = ConstAir::<S, D>::trace_to_matrix(&traces.const_trace, t.min_height);
    let p = PublicAir::<S, D>::trace_to_matrix(&traces.public_trace, t.public_lanes, t.min_height);
    let a = t.alu_air.trace_to_matrix(&traces.alu_trace, t.min_height);
    HonestMains { const_main: matrix_rows(&c), public_main: matrix_rows(&p), alu_main: matrix_rows(&a) }
}

pub struct AllEval {
    pub const_eval: TableEval<BabyBearCfg>,
    pub public_eval: TableEval<BabyBearCfg>,
    pub alu_eval: TableEval<BabyBearCfg>,
}

pub fn eval_all<const D: usize>(t: &PrimTables<D>, m: &HonestMains) -> Result<AllEval, String> {
    let hchk = |name: &str, main: &Vec<Vec<S>>, prep: &Vec<Vec<S>>, deg: usize| -> Result<(), String> {
        if main.len() != prep.len() {
            return Err(format!("{name}: main height {} != preprocessed height {}", main.len(), prep.len()));
        }
        if main.len() != 1 << deg {
            return Err(format!("{name}: main height {} != 2^degree {}", main.len(), 1usize << deg));
        }
        Ok(())
    };
    hchk("const", &m.const_main, &t.const_prep, t.log_degrees[0])?;
    hchk("public", &m.public_main, &t.public_prep, t.log_degrees[1])?;
    hchk("alu", &m.alu_main, &t.alu_prep, t.log_degrees[2])?;
    Ok(AllEval {
        const_eval: eval_table(&t.const_air, &m.const_main, &t.const_prep),
        public_eval: eval_table(&t.public_air, &m.public_main, &t.public_prep),
        alu_eval: eval_table(&t.alu_air, &m.alu_main, &t.alu_prep),
    })
}
