//! Program descriptions for the circuit builder (the quantifier over *programs* is a
//! concrete enumeration; values are symbolic). A `Program` is the list of public API calls
//! the harness makes on `CircuitBuilder`; its denotation is evaluated independently.
use p3_circuit::{Circuit, CircuitBuilder, ExprId};
use p3_field::Field;
use rand::RngExt;
use rand::rngs::SmallRng;
use serde::{Deserialize, Serialize};

#[derive(Clone, Debug, PartialEq, Eq, Hash, Serialize, Deserialize)]
pub enum Stmt {
    // ---- value-producing ----
    Const(i64),
    Public,
    Private,
    Add(usize, usize),
    Sub(usize, usize),
    Mul(usize, usize),
    Div(usize, usize),
    MulAdd(usize, usize, usize),
    /// horner_acc_step(acc, alpha, p_at_z, p_at_x)
    Horner(usize, usize, usize, usize),
    /// select(b, t, s)
    Select(usize, usize, usize),
    // ---- assertions (no value) ----
    AssertBool(usize),
    Connect(usize, usize),
    AssertZero(usize),
}

impl Stmt {
    pub fn produces_value(&self) -> bool {
        !matches!(self, Stmt::AssertBool(_) | Stmt::Connect(..) | Stmt::AssertZero(_))
    }
}

#[derive(Clone, Debug, PartialEq, Eq, Hash, Serialize, Deserialize)]
pub struct Program {
    pub stmts: Vec<Stmt>,
}

impl Program {
    pub fn n_values(&self) -> usize {
        self.stmts.iter().filter(|s| s.produces_value()).count()
    }
    pub fn n_public(&self) -> usize {
        self.stmts.iter().filter(|s| matches!(s, Stmt::Public)).count()
    }
    pub fn n_private(&self) -> usize {
        self.stmts.iter().filter(|s| matches!(s, Stmt::Private)).count()
    }
    pub fn text(&self) -> String {
        let mut out = Vec::new();
        let mut v = 0;
        for s in &self.stmts {
            if s.produces_value() {
                out.push(format!("v{v}={s:?}"));
                v += 1;
            } else {
                out.push(format!("{s:?}"));
            }
        }
        out.join("; ")
    }
}

pub fn konst<F: Field>(c: i64) -> F {
    if c >= 0 { F::from_u64(c as u64) } else { -F::from_u64((-c) as u64) }
}

pub struct Built<F> {
    pub circuit: Circuit<F>,
    /// ExprId returned by the builder for each program value.
    pub exprs: Vec<ExprId>,
}

/// Drive the real `CircuitBuilder` with the program. `Err` = builder rejected (error or panic).
pub fn build_program<F: Field>(p: &Program) -> Result<Built<F>, String> {
    let p = p.clone();
    let r = std::panic::catch_unwind(move || {
        let mut b = CircuitBuilder::<F>::new();
        let mut e: Vec<ExprId> = Vec::new();
        for s in &p.stmts {
            match *s {
                Stmt::Const(c) => e.push(b.define_const(konst::<F>(c))),
                Stmt::Public => e.push(b.public_input()),
                Stmt::Private => e.push(b.alloc_private_input("p")),
                Stmt::Add(i, j) => e.push(b.add(e[i], e[j])),
                Stmt::Sub(i, j) => e.push(b.sub(e[i], e[j])),
                Stmt::Mul(i, j) => e.push(b.mul(e[i], e[j])),
                Stmt::Div(i, j) => e.push(b.div(e[i], e[j])),
                Stmt::MulAdd(i, j, k) => e.push(b.mul_add(e[i], e[j], e[k])),
                Stmt::Horner(a, al, z, x) => e.push(b.horner_acc_step(e[a], e[al], e[z], e[x])),
                Stmt::Select(c, t, s) => e.push(b.select(e[c], e[t], e[s])),
                Stmt::AssertBool(i) => b.assert_bool(e[i]),
                Stmt::Connect(i, j) => b.connect(e[i], e[j]),
                Stmt::AssertZero(i) => b.assert_zero(e[i]),
            }
        }
        b.build().map(|circuit| Built { circuit, exprs: e }).map_err(|err| format!("{err:?}"))
    });
    match r {
        Ok(x) => x,
        Err(p) => Err(format!(
            "panic: {}",
            p.downcast_ref::<String>().cloned().or_else(|| p.downcast_ref::<&str>().map(|s| s.to_string())).unwrap_or_default()
        )),
    }
}

/// Denotation of every program value, the asserted relations and the divisors.
pub struct Denotation<F> {
    pub vals: Vec<F>,
    /// (lhs, rhs) pairs asserted equal (connect / assert_zero / bool: x*(x-1) == 0)
    pub rel: Vec<(F, F, String)>,
    pub divisors: Vec<F>,
    /// values asserted boolean (also present in `rel` as x*(x-1) == 0)
    pub bools: Vec<F>,
}

pub fn denote<F: Field>(p: &Program, publics: &[F], privates: &[F], inv: impl Fn(F) -> F) -> Denotation<F> {
    let mut v: Vec<F> = Vec::new();
    let mut rel = Vec::new();
    let mut divisors = Vec::new();
    let mut bools = Vec::new();
    let (mut np, mut nq) = (0, 0);
    for (si, s) in p.stmts.iter().enumerate() {
        match *s {
            Stmt::Const(c) => v.push(konst::<F>(c)),
            Stmt::Public => {
                v.push(publics[np]);
                np += 1;
            }
            Stmt::Private => {
                v.push(privates[nq]);
                nq += 1;
            }
            Stmt::Add(i, j) => v.push(v[i] + v[j]),
            Stmt::Sub(i, j) => v.push(v[i] - v[j]),
            Stmt::Mul(i, j) => v.push(v[i] * v[j]),
            Stmt::Div(i, j) => {
                divisors.push(v[j]);
                v.push(v[i] * inv(v[j]));
            }
            Stmt::MulAdd(i, j, k) => v.push(v[i] * v[j] + v[k]),
            Stmt::Horner(a, al, z, x) => v.push(v[a] * v[al] + v[z] - v[x]),
            Stmt::Select(c, t, s) => v.push(v[s] + v[c] * (v[t] - v[s])),
            Stmt::AssertBool(i) => {
                bools.push(v[i]);
                rel.push((v[i] * (v[i] - F::ONE), F::ZERO, format!("stmt{si}:bool(v{i})")))
            }
            Stmt::Connect(i, j) => rel.push((v[i], v[j], format!("stmt{si}:connect(v{i},v{j})"))),
            Stmt::AssertZero(i) => rel.push((v[i], F::ZERO, format!("stmt{si}:zero(v{i})"))),
        }
    }
    Denotation { vals: v, rel, divisors, bools }
}

// ------------------------------------------------------------------------------------
// generators
// ------------------------------------------------------------------------------------

pub const CONSTS: [i64; 5] = [0, 1, 2, -1, 5];

fn pick(rng: &mut SmallRng, n: usize) -> usize {
    // bias towards recent values
    if n == 1 {
        return 0;
    }
    if rng.random_range(0..3) == 0 { n - 1 - rng.random_range(0..n.min(3)) } else { rng.random_range(0..n) }
}

/// Seeded random program, biased towards the shapes the optimizer keys on.
pub fn gen_random(rng: &mut SmallRng, max_ops: usize, allow_private: bool) -> Program {
    let mut stmts = Vec::new();
    let mut nv = 0usize;
    let n_pub = rng.random_range(1..=3);
    for _ in 0..n_pub {
        stmts.push(Stmt::Public);
        nv += 1;
    }
    if allow_private && rng.random_range(0..4) == 0 {
        stmts.push(Stmt::Private);
        nv += 1;
    }
    let n_c = rng.random_range(0..=2);
    for _ in 0..n_c {
        stmts.push(Stmt::Const(CONSTS[rng.random_range(0..CONSTS.len())]));
        nv += 1;
    }
    let n_ops = rng.random_range(1..=max_ops);
    let mut last_horner: Option<(usize, usize, usize, usize)> = None;
    let mut last_mul: Option<usize> = None;
    for _ in 0..n_ops {
        let k = rng.random_range(0..20);
        let s = match k {
            0..=2 => Stmt::Add(pick(rng, nv), pick(rng, nv)),
            3..=4 => Stmt::Sub(pick(rng, nv), pick(rng, nv)),
            5..=7 => Stmt::Mul(pick(rng, nv), pick(rng, nv)),
            8 => Stmt::Div(pick(rng, nv), pick(rng, nv)),
            9..=10 => Stmt::MulAdd(pick(rng, nv), pick(rng, nv), pick(rng, nv)),
            11..=12 => {
                // single-use product feeding a sum (fusion pattern)
                if let Some(m) = last_mul { Stmt::Add(m, pick(rng, nv)) } else { Stmt::Mul(pick(rng, nv), pick(rng, nv)) }
            }
            13..=15 => {
                // horner: either fresh, or same (alpha,pz,px) with different acc, or chained
                match (last_horner, rng.random_range(0..3)) {
                    (Some((_, al, z, x)), 0) => Stmt::Horner(pick(rng, nv), al, z, x),
                    (Some(_), 1) => Stmt::Horner(nv - 1, pick(rng, nv), pick(rng, nv), pick(rng, nv)),
                    _ => Stmt::Horner(pick(rng, nv), pick(rng, nv), pick(rng, nv), pick(rng, nv)),
                }
            }
            16 => Stmt::Select(pick(rng, nv), pick(rng, nv), pick(rng, nv)),
            17 => Stmt::AssertBool(pick(rng, nv)),
            18 => Stmt::Connect(pick(rng, nv), pick(rng, nv)),
            _ => Stmt::AssertZero(pick(rng, nv)),
        };
        if let Stmt::Horner(a, al, z, x) = s {
            last_horner = Some((a, al, z, x));
        }
        if let Stmt::Mul(..) = s {
            last_mul = Some(nv);
        } else if s.produces_value() {
            last_mul = None;
        }
        if s.produces_value() {
            nv += 1;
        }
        stmts.push(s);
    }
    // trailing asserts
    let n_as = rng.random_range(0..=2);
    for _ in 0..n_as {
        let s = match rng.random_range(0..4) {
            0 => Stmt::AssertBool(pick(rng, nv)),
            1 => Stmt::AssertZero(pick(rng, nv)),
            _ => Stmt::Connect(pick(rng, nv), pick(rng, nv)),
        };
        stmts.push(s);
    }
    Program { stmts }
}

/// Sum-of-products family: single-use products interleaved with sums that consume them in
/// varying orders (the shapes mul-add fusion and its ordering analysis key on), optional
/// sub/div (backwards ops) and a private input.
pub fn gen_fusion_family(rng: &mut SmallRng) -> Program {
    let mut stmts = Vec::new();
    let n_in = rng.random_range(3..=6);
    let mut inputs: Vec<usize> = Vec::new();
    for i in 0..n_in {
        if i == 1 && rng.random_range(0..4) == 0 {
            stmts.push(Stmt::Private);
        } else {
            stmts.push(Stmt::Public);
        }
        inputs.push(i);
    }
    let mut nv = n_in;
    let mut fresh_products: Vec<usize> = Vec::new();
    let mut sums: Vec<usize> = Vec::new();
    let n_ops = rng.random_range(3..=8);
    for _ in 0..n_ops {
        let any = |rng: &mut SmallRng, inputs: &Vec<usize>, sums: &Vec<usize>| {
            if !sums.is_empty() && rng.random_range(0..2) == 0 {
                sums[rng.random_range(0..sums.len())]
            } else {
                inputs[rng.random_range(0..inputs.len())]
            }
        };
        let k = rng.random_range(0..10);
        if k < 4 || (fresh_products.is_empty() && k < 7) {
            // product of two operands
            let a = any(rng, &inputs, &sums);
            let b = any(rng, &inputs, &sums);
            stmts.push(Stmt::Mul(a, b));
            fresh_products.push(nv);
            nv += 1;
        } else if k < 8 && !fresh_products.is_empty() {
            // consume a product in a sum: addend is an input, an earlier sum or another product
            let pi = rng.random_range(0..fresh_products.len());
            let m = fresh_products.remove(pi);
            let addend = if !fresh_products.is_empty() && rng.random_range(0..4) == 0 {
                let qi = rng.random_range(0..fresh_products.len());
                fresh_products.remove(qi)
            } else {
                any(rng, &inputs, &sums)
            };
            // a second reader of the product in some other operand position of some other op kind
            // (use-count logic of the fusion pass), before or after the sum
            let extra = if rng.random_range(0..3) == 0 {
                let (p, q, r) = (any(rng, &inputs, &sums), any(rng, &inputs, &sums), any(rng, &inputs, &sums));
                Some(match rng.random_range(0..6) {
                    0 => Stmt::Horner(p, q, m, r),
                    1 => Stmt::Horner(p, q, r, m),
                    2 => Stmt::Horner(m, q, p, r),
                    3 => Stmt::MulAdd(p, q, m),
                    4 => Stmt::Sub(p, m),
                    _ => Stmt::Horner(p, m, q, r),
                })
            } else {
                None
            };
            let before = rng.random_range(0..2) == 0;
            if let (Some(e), true) = (&extra, before) {
                stmts.push(e.clone());
                sums.push(nv);
                nv += 1;
            }
            stmts.push(if rng.random_range(0..2) == 0 { Stmt::Add(m, addend) } else { Stmt::Add(addend, m) });
            sums.push(nv);
            nv += 1;
            if let (Some(e), false) = (&extra, before) {
                stmts.push(e.clone());
                sums.push(nv);
                nv += 1;
            }
        } else if k == 8 {
            let a = any(rng, &inputs, &sums);
            let b = any(rng, &inputs, &sums);
            stmts.push(Stmt::Add(a, b));
            sums.push(nv);
            nv += 1;
        } else {
            let a = any(rng, &inputs, &sums);
            let b = any(rng, &inputs, &sums);
            stmts.push(if rng.random_range(0..3) == 0 { Stmt::Div(a, b) } else { Stmt::Sub(a, b) });
            sums.push(nv);
            nv += 1;
        }
    }
    if rng.random_range(0..3) == 0 && nv > 1 {
        let a = rng.random_range(0..nv);
        let b = rng.random_range(0..nv);
        stmts.push(Stmt::Connect(a, b));
    }
    Program { stmts }
}

/// Sum-of-products DAG emitted in a random topological order: `np` single-use products,
/// `ns` plain sums, and one consuming add per product whose addend is an input, a plain sum
/// or an earlier consuming add. The interleaving is what the fusion ordering analysis sees.
pub fn gen_fusion_dag(rng: &mut SmallRng) -> Program {
    #[derive(Clone, Copy)]
    enum Src {
        In(usize),
        Node(usize),
    }
    #[derive(Clone, Copy)]
    enum Kind {
        Mul,
        Add,
        Sub,
    }
    let n_in = rng.random_range(3..=6);
    let np = rng.random_range(1..=3);
    let ns = rng.random_range(0..=2);
    let mut nodes: Vec<(Kind, Src, Src)> = Vec::new();
    let inp = |rng: &mut SmallRng| Src::In(rng.random_range(0..n_in));
    for _ in 0..np {
        nodes.push((Kind::Mul, inp(rng), inp(rng)));
    }
    let mut addend_pool: Vec<usize> = Vec::new();
    for _ in 0..ns {
        let k = if rng.random_range(0..4) == 0 { Kind::Sub } else { Kind::Add };
        nodes.push((k, inp(rng), inp(rng)));
        addend_pool.push(nodes.len() - 1);
    }
    for pi in 0..np {
        let addend = if !addend_pool.is_empty() && rng.random_range(0..3) != 0 {
            Src::Node(addend_pool[rng.random_range(0..addend_pool.len())])
        } else {
            inp(rng)
        };
        let (a, b) = if rng.random_range(0..2) == 0 { (Src::Node(pi), addend) } else { (addend, Src::Node(pi)) };
        nodes.push((Kind::Add, a, b));
        addend_pool.push(nodes.len() - 1);
    }
    // random topological order
    let n = nodes.len();
    let deps = |i: usize| -> Vec<usize> {
        let mut d = Vec::new();
        for s in [nodes[i].1, nodes[i].2] {
            if let Src::Node(j) = s {
                d.push(j);
            }
        }
        d
    };
    let mut placed: Vec<Option<usize>> = vec![None; n];
    let mut stmts: Vec<Stmt> = Vec::new();
    for i in 0..n_in {
        if i == 1 && rng.random_range(0..5) == 0 {
            stmts.push(Stmt::Private);
        } else {
            stmts.push(Stmt::Public);
        }
    }
    let mut nv = n_in;
    for _ in 0..n {
        let ready: Vec<usize> = (0..n).filter(|&i| placed[i].is_none() && deps(i).iter().all(|&j| placed[j].is_some())).collect();
        let i = ready[rng.random_range(0..ready.len())];
        let v = |s: Src| match s {
            Src::In(k) => k,
            Src::Node(j) => placed[j].unwrap(),
        };
        let (a, b) = (v(nodes[i].1), v(nodes[i].2));
        stmts.push(match nodes[i].0 {
            Kind::Mul => Stmt::Mul(a, b),
            Kind::Add => Stmt::Add(a, b),
            Kind::Sub => Stmt::Sub(a, b),
        });
        placed[i] = Some(nv);
        nv += 1;
    }
    Program { stmts }
}

/// Private-input aliasing family: one or two ops whose operands are drawn from a small input
/// set containing private inputs (possibly repeated within one op), with the result connected
/// back to one of the inputs, followed by an optional reader.
pub fn gen_private_alias(rng: &mut SmallRng) -> Program {
    let mut stmts = vec![Stmt::Public, Stmt::Public, Stmt::Private];
    let mut nv = 3;
    if rng.random_range(0..3) == 0 {
        stmts.push(Stmt::Private);
        nv += 1;
    }
    if rng.random_range(0..3) == 0 {
        stmts.push(Stmt::Const(CONSTS[rng.random_range(0..CONSTS.len())]));
        nv += 1;
    }
    let n_in = nv;
    let n_ops = rng.random_range(1..=2);
    for _ in 0..n_ops {
        let o = |rng: &mut SmallRng| if rng.random_range(0..2) == 0 { 2 } else { rng.random_range(0..nv) };
        let s = match rng.random_range(0..7) {
            0 => Stmt::Add(o(rng), o(rng)),
            1 => Stmt::Sub(o(rng), o(rng)),
            2 => Stmt::Mul(o(rng), o(rng)),
            3 => Stmt::Div(o(rng), o(rng)),
            4 | 5 => Stmt::MulAdd(o(rng), o(rng), o(rng)),
            _ => Stmt::Horner(o(rng), o(rng), o(rng), o(rng)),
        };
        stmts.push(s);
        nv += 1;
        if rng.random_range(0..2) == 0 {
            stmts.push(Stmt::Connect(nv - 1, rng.random_range(0..n_in)));
        }
    }
    if rng.random_range(0..2) == 0 {
        stmts.push(Stmt::Mul(nv - 1, rng.random_range(0..nv)));
    }
    Program { stmts }
}

/// Exhaustive small scope: prelude [Public, Public, Const(2)] (+Private when `with_private`),
/// then `k` operation statements over all operand choices, then at most one trailing assertion.
/// `visit` returns false to stop early.
pub fn enumerate_small(k: usize, kinds: &[&str], with_private: bool, visit: &mut dyn FnMut(Program) -> bool) {
    let prelude = if with_private {
        vec![Stmt::Public, Stmt::Private, Stmt::Const(2)]
    } else {
        vec![Stmt::Public, Stmt::Public, Stmt::Const(2)]
    };
    fn rec(cur: &mut Vec<Stmt>, nv: usize, left: usize, kinds: &[&str], visit: &mut dyn FnMut(Program) -> bool) -> bool {
        if left == 0 {
            // assertions: none, connect(i<j), assert_zero(i), assert_bool(i)
            if !visit(Program { stmts: cur.clone() }) {
                return false;
            }
            for i in 0..nv {
                for j in (i + 1)..nv {
                    cur.push(Stmt::Connect(i, j));
                    let ok = visit(Program { stmts: cur.clone() });
                    cur.pop();
                    if !ok {
                        return false;
                    }
                }
                for s in [Stmt::AssertZero(i), Stmt::AssertBool(i)] {
                    cur.push(s);
                    let ok = visit(Program { stmts: cur.clone() });
                    cur.pop();
                    if !ok {
                        return false;
                    }
                }
            }
            return true;
        }
        for kind in kinds {
            let arity = match *kind {
                "add" | "sub" | "mul" | "div" => 2,
                "muladd" | "select" => 3,
                "horner" => 4,
                _ => panic!("kind"),
            };
            let total = nv.pow(arity as u32);
            for code in 0..total {
                let mut c = code;
                let mut o = [0usize; 4];
                for x in o.iter_mut().take(arity) {
                    *x = c % nv;
                    c /= nv;
                }
                // commutative symmetry reduction for add/mul
                if (*kind == "add" || *kind == "mul") && o[0] > o[1] {
                    continue;
                }
                let s = match *kind {
                    "add" => Stmt::Add(o[0], o[1]),
                    "sub" => Stmt::Sub(o[0], o[1]),
                    "mul" => Stmt::Mul(o[0], o[1]),
                    "div" => Stmt::Div(o[0], o[1]),
                    "muladd" => Stmt::MulAdd(o[0], o[1], o[2]),
                    "select" => Stmt::Select(o[0], o[1], o[2]),
                    _ => Stmt::Horner(o[0], o[1], o[2], o[3]),
                };
                cur.push(s);
                let ok = rec(cur, nv + 1, left - 1, kinds, visit);
                cur.pop();
                if !ok {
                    return false;
                }
            }
        }
        true
    }
    let mut cur = prelude;
    let nv = cur.len();
    rec(&mut cur, nv, k, kinds, visit);
}
