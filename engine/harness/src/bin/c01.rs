//! C01 probe: the uni-STARK verifier (native p3_uni_stark::verify and the recursive circuit)
//! at the symbolic field.
use std::sync::Arc;

use harness::common::*;
use p3_challenger::DuplexChallenger;
use p3_circuit::ops::{OpStateMap, Poseidon2Config, Poseidon2Params, generate_recompose_trace};
use p3_circuit::tables::NonPrimitiveTrace;
use p3_circuit::test_utils::{FibonacciAir, generate_trace_rows};
use p3_circuit::{CircuitBuilder, CircuitError};
use p3_commit::ExtensionMmcs;
use p3_dft::Radix2DitParallel;
use p3_field::extension::BinomialExtensionField;
use p3_field::{PrimeCharacteristicRing, PrimeField64};
use p3_fri::{FriParameters, TwoAdicFriPcs};
use p3_merkle_tree::MerkleTreeMmcs;
use p3_recursion::pcs::fri::{FriProofTargets, FriVerifierParams, InputProofTargets, MerkleCapTargets, RecExtensionValMmcs, RecValMmcs, Witness};
use p3_recursion::pcs::set_fri_mmcs_private_data;
use p3_recursion::public_inputs::StarkVerifierInputsBuilder;
use p3_recursion::verify_p3_uni_proof_circuit;
use p3_symmetric::{PaddingFreeSponge, Permutation, TruncatedPermutation};
use p3_test_utils::baby_bear_params as bbp;
use p3_uni_stark::{StarkConfig, prove, verify};

type BB = p3_baby_bear::BabyBear;
type SF = SymBB;
type SCh = BinomialExtensionField<SF, 4>;
type SPerm = SymPerm<16>;
type SHash = PaddingFreeSponge<SPerm, 16, 8, 8>;
type SCompress = TruncatedPermutation<SPerm, 2, 8, 16>;
type SMmcs = MerkleTreeMmcs<SF, SF, SHash, SCompress, 2, 8>;
type SChMmcs = ExtensionMmcs<SF, SCh, SMmcs>;
type SChallenger = DuplexChallenger<SF, SPerm, 16, 8>;
type SDft = Radix2DitParallel<SF>;
type SPcs = TwoAdicFriPcs<SF, SDft, SMmcs, SChMmcs>;
type SConfig = StarkConfig<SPcs, SCh, SChallenger>;
type InnerFri = FriProofTargets<SF, SCh, RecExtensionValMmcs<SF, SCh, 8, RecValMmcs<SF, 8, SHash, SCompress>>, InputProofTargets<SF, SCh, RecValMmcs<SF, 8, SHash, SCompress>>, Witness<SF>>;

struct SymBBD4W16;
impl Poseidon2Params for SymBBD4W16 {
    type BaseField = SymBB;
    const CONFIG: Poseidon2Config = Poseidon2Config::BABY_BEAR_D4_W16;
}
fn no_trace<F>(_: &OpStateMap) -> Result<Option<Box<dyn NonPrimitiveTrace<F>>>, CircuitError> {
    Ok(None)
}

fn main() {
    // concrete honest proof
    let n = 1 << 3;
    let trace = generate_trace_rows::<BB>(0, 1, n);
    let config = bbp::make_test_config();
    let cperm = bbp::default_babybear_poseidon2_16();
    let pis = vec![BB::ZERO, BB::ONE, BB::from_u64(21)];
    let air = FibonacciAir {};
    let proof = prove(&config, &air, trace, &pis);
    verify(&config, &air, &proof, &pis).expect("concrete verify");
    let json = serde_json::to_string(&proof).expect("ser");
    println!("proof json bytes: {}", json.len());

    reset::<BabyBearCfg>();
    set_deser_fresh(true);
    set_deser_monty31(true);
    let sproof: p3_uni_stark::Proof<SConfig> = serde_json::from_str(&json).expect("deser");
    set_deser_fresh(false);
    println!("symbolic proof variables: {}", with_arena(|a| a.var_names.len()));
    let spis: Vec<SF> = pis.iter().enumerate().map(|(i, x)| SF::var(format!("pi{i}"), x.as_canonical_u64())).collect();

    let shadow: ShadowFn = {
        let p = cperm.clone();
        Arc::new(move |xs: &[u64]| {
            let a: [BB; 16] = core::array::from_fn(|i| BB::from_u64(xs[i]));
            p.permute(a).iter().map(|x| x.as_canonical_u64()).collect()
        })
    };
    let sperm = SPerm::new("perm", shadow);
    let val_mmcs = SMmcs::new(SHash::new(sperm.clone()), SCompress::new(sperm.clone()), 0);
    let ch_mmcs = SChMmcs::new(val_mmcs.clone());
    let fri_params = FriParameters::new_testing(ch_mmcs, 0);
    let pcs = SPcs::new(SDft::default(), val_mmcs, fri_params);
    let sconfig = SConfig::new(pcs, SChallenger::new(sperm.clone()));

    let e0 = events_len();
    let nres = verify(&sconfig, &air, &sproof, &spis);
    let native_events = events()[e0..].to_vec();
    println!("native verify at SymF: {:?}; events: {}", nres.is_ok(), native_events.len());
    let n_dec = native_events.iter().filter(|e| matches!(e, Event::Decide { .. })).count();
    let n_pin = native_events.iter().filter(|e| matches!(e, Event::Pin(..))).count();
    println!("  decisions {n_dec} pins {n_pin}");

    // circuit side
    let scalars = p3_test_utils::test_fri_scalars();
    let fri_verifier_params = FriVerifierParams::with_mmcs(scalars.log_blowup, scalars.log_final_poly_len, scalars.commit_pow_bits, scalars.query_pow_bits, Poseidon2Config::BABY_BEAR_D4_W16);
    let mut cb = CircuitBuilder::<SCh>::new();
    cb.enable_poseidon2_perm::<SymBBD4W16, _>(no_trace::<SCh>, sperm.clone());
    cb.enable_recompose::<SF>(generate_recompose_trace::<SF, SCh>);
    let verifier_inputs = StarkVerifierInputsBuilder::<SConfig, MerkleCapTargets<SF, 8>, InnerFri>::allocate(&mut cb, &sproof, None, spis.len());
    let mmcs_op_ids = verify_p3_uni_proof_circuit::<FibonacciAir, SConfig, MerkleCapTargets<SF, 8>, InputProofTargets<SF, SCh, RecValMmcs<SF, 8, SHash, SCompress>>, InnerFri, _, 16, 8>(
        &sconfig, &air, &mut cb, &verifier_inputs.proof_targets, &verifier_inputs.air_public_targets, &None, &fri_verifier_params, Poseidon2Config::BABY_BEAR_D4_W16,
    ).expect("circuit verifier build");
    let circuit = cb.build().expect("build");
    println!("circuit ops: {}", circuit.ops.len());
    let mut runner = circuit.runner();
    let (public_inputs, private_inputs) = verifier_inputs.pack_values(&spis, &sproof, &None);
    runner.set_public_inputs(&public_inputs).unwrap();
    runner.set_private_inputs(&private_inputs).unwrap();
    set_fri_mmcs_private_data::<SF, SCh, SChMmcs, SMmcs, SHash, SCompress, 8>(&mut runner, &mmcs_op_ids, &sproof.opening_proof, Poseidon2Config::BABY_BEAR_D4_W16).expect("private data");
    let e1 = events_len();
    let cres = runner.run();
    let circuit_events = events()[e1..].to_vec();
    println!("circuit run at SymF: {:?}; events: {}", cres.as_ref().map(|_| ()).map_err(|e| format!("{e:?}")), circuit_events.len());

    // ---- check-list equivalence under the common path (pins, disequalities, non-zero facts) ----
    let split = |evs: &[Event]| -> (Vec<Fm>, Vec<Fm>) {
        let mut eqs = Vec::new();
        let mut path = Vec::new();
        for e in evs {
            match e {
                Event::Decide { eq: true, .. } => eqs.push(event_fm(e).unwrap()),
                Event::Mark(_) => {}
                _ => path.push(event_fm(e).unwrap()),
            }
        }
        (eqs, path)
    };
    let (n_eq, n_path) = split(&native_events);
    let (c_eq, c_path) = split(&circuit_events);
    println!("native: {} equality checks, {} path atoms; circuit: {} equality checks, {} path atoms", n_eq.len(), n_path.len(), c_eq.len(), c_path.len());
    let mut sh = Shard::new();
    let mut solver = Solver::new(SolverKind::Z3, BabyBearCfg::P, 20_000);
    if std::env::var("VERIF_TRANSCRIPT").is_ok() {
        solver.set_transcript(std::path::Path::new("/tmp/w/c01.smt2"));
    }
    let max_goals: usize = std::env::var("VERIF_MAX_GOALS").ok().and_then(|x| x.parse().ok()).unwrap_or(usize::MAX);
    let mut path: Vec<Fm> = n_path.clone();
    path.extend(c_path.iter().cloned());
    for (dir, hyps_src, goals) in [("circuit=>native", &c_eq, &n_eq), ("native=>circuit", &n_eq, &c_eq)] {
        let mut hyps = path.clone();
        hyps.extend(hyps_src.iter().cloned());
        let t0 = std::time::Instant::now();
        let mut rw = rewriter_from(BabyBearCfg::P, &hyps, false);
        let (mut ok, mut cex, mut und) = (0, 0, 0);
        for (i, g) in goals.iter().enumerate().take(max_goals) {
            let t1 = std::time::Instant::now();
            match discharge_big(&mut solver, &mut rw, &hyps, g, &mut sh, "c01") {
                Verdict::Holds => ok += 1,
                Verdict::Cex(_) => {
                    cex += 1;
                    println!("  {dir}: goal {i} has a counterexample");
                }
                Verdict::Undecided(w) => {
                    und += 1;
                    println!("  {dir}: goal {i} undecided ({w}) after {:.1}s", t1.elapsed().as_secs_f64());
                }
            }
        }
        println!("{dir}: {ok} hold, {cex} counterexamples, {und} undecided in {:.1}s", t0.elapsed().as_secs_f64());
    }
    println!("{:?}", sh.counters);
}
