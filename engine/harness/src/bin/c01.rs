//! Whole-verifier symbolic execution (serves C14; records what it can decide of C01/C07).
//!
//! An honest uni-STARK proof is produced concretely, converted element by element into symbolic
//! variables through the repository's own serde derives, and BOTH verifiers are executed on
//! the same symbols: the native `p3_uni_stark::verify` instantiated with a symbolic-field
//! `StarkConfig`, and the real `verify_p3_uni_proof_circuit` circuit (real input builder,
//! real packing, real compiler, real runner, real MMCS/Poseidon executors).
//!
//!  (1) both accept the honest proof (lengths and packing positions are consistent);
//!  (2) dependence: every proof / public-value variable the native verifier's equality checks
//!      depend on also occurs in the circuit's checks (no input left unconstrained);
//!  (3) check-list equivalence obligations (native check <=> circuit check) discharged by
//!      congruence rewriting / polynomial normal forms / z3 where the terms are small enough;
//!      the rest is reported as undecided (the quartic-extension FRI algebra is beyond z3);
//!  (4) supplementary enumeration (NOT solver-decided, reported separately): each variable's
//!      shadow is altered in turn and both verifiers are re-run concolically; they must agree.
use std::collections::{BTreeMap, BTreeSet};
use std::sync::Arc;

use harness::common::*;
use p3_challenger::DuplexChallenger;
use p3_circuit::ops::{OpStateMap, Poseidon2Config, Poseidon2Params, generate_recompose_trace};
use p3_circuit::tables::NonPrimitiveTrace;
use p3_circuit::test_utils::{FibonacciAir, generate_trace_rows};
use p3_circuit::{CircuitBuilder, CircuitError};
use p3_commit::ExtensionMmcs;
use p3_dft::Radix2DitParallel;
use p3_field::extension::BinomialExtensionField;
use p3_field::{PrimeCharacteristicRing, PrimeField64};
use p3_fri::{FriParameters, TwoAdicFriPcs};
use p3_merkle_tree::MerkleTreeMmcs;
use p3_recursion::pcs::fri::{FriProofTargets, FriVerifierParams, InputProofTargets, MerkleCapTargets, RecExtensionValMmcs, RecValMmcs, Witness};
use p3_recursion::pcs::set_fri_mmcs_private_data;
use p3_recursion::public_inputs::StarkVerifierInputsBuilder;
use p3_recursion::verify_p3_uni_proof_circuit;
use p3_symmetric::{PaddingFreeSponge, Permutation, TruncatedPermutation};
use p3_test_utils::baby_bear_params as bbp;
use p3_uni_stark::{StarkConfig, prove, verify};
use serde_json::{Value, json};

type BB = p3_baby_bear::BabyBear;
type SF = SymBB;
type SCh = BinomialExtensionField<SF, 4>;
type SPerm = SymPerm<16>;
type SHash = PaddingFreeSponge<SPerm, 16, 8, 8>;
type SCompress = TruncatedPermutation<SPerm, 2, 8, 16>;
type SMmcs = MerkleTreeMmcs<SF, SF, SHash, SCompress, 2, 8>;
type SChMmcs = ExtensionMmcs<SF, SCh, SMmcs>;
type SChallenger = DuplexChallenger<SF, SPerm, 16, 8>;
type SDft = Radix2DitParallel<SF>;
type SPcs = TwoAdicFriPcs<SF, SDft, SMmcs, SChMmcs>;
type SConfig = StarkConfig<SPcs, SCh, SChallenger>;
type InnerFri = FriProofTargets<SF, SCh, RecExtensionValMmcs<SF, SCh, 8, RecValMmcs<SF, 8, SHash, SCompress>>, InputProofTargets<SF, SCh, RecValMmcs<SF, 8, SHash, SCompress>>, Witness<SF>>;
const P: u64 = BabyBearCfg::P;

struct SymBBD4W16;
impl Poseidon2Params for SymBBD4W16 {
    type BaseField = SymBB;
    const CONFIG: Poseidon2Config = Poseidon2Config::BABY_BEAR_D4_W16;
}
fn no_trace<F>(_: &OpStateMap) -> Result<Option<Box<dyn NonPrimitiveTrace<F>>>, CircuitError> {
    Ok(None)
}

#[derive(Clone, Copy, Debug, PartialEq)]
struct Fp {
    log_blowup: usize,
    log_final_poly_len: usize,
    max_log_arity: usize,
    num_queries: usize,
    commit_pow: usize,
    query_pow: usize,
}
const FP_TESTING: Fp = Fp { log_blowup: 2, log_final_poly_len: 0, max_log_arity: 1, num_queries: 2, commit_pow: 1, query_pow: 1 };

struct Setup {
    air: AirKind,
    json: String,
    pis: Vec<BB>,
    cap_height: usize,
    log_n: usize,
    fp: Fp,
}

/// The AIRs proved by the configurations: the repository's Fibonacci test AIR, and an AIR with two
/// periodic columns of different periods (`y = x*x*p0 + p1`, p0 of period 2, p1 of period 8) so that
/// the periodic-column path of the recursive verifier is exercised end to end.
#[derive(Clone, Copy, Debug, PartialEq)]
enum AirKind {
    Fib,
    Periodic,
}
struct AnyAir(AirKind);
const PER0: [u64; 2] = [3, 10];
const PER1: [u64; 8] = [5, 11, 2, 29, 17, 8, 23, 1];

impl<F: p3_field::Field> p3_air::BaseAir<F> for AnyAir {
    fn width(&self) -> usize {
        2
    }
    fn num_public_values(&self) -> usize {
        match self.0 {
            AirKind::Fib => 3,
            AirKind::Periodic => 0,
        }
    }
    fn num_periodic_columns(&self) -> usize {
        match self.0 {
            AirKind::Fib => 0,
            AirKind::Periodic => 2,
        }
    }
    fn periodic_columns(&self) -> Vec<Vec<F>> {
        match self.0 {
            AirKind::Fib => vec![],
            AirKind::Periodic => vec![PER0.iter().map(|x| F::from_u64(*x)).collect(), PER1.iter().map(|x| F::from_u64(*x)).collect()],
        }
    }
}
impl<AB: p3_air::AirBuilder> p3_air::Air<AB> for AnyAir
where
    AB::F: p3_field::Field,
{
    fn eval(&self, builder: &mut AB) {
        use p3_air::WindowAccess;
        match self.0 {
            AirKind::Fib => p3_air::Air::<AB>::eval(&FibonacciAir {}, builder),
            AirKind::Periodic => {
                let main = builder.main();
                let local = main.current_slice();
                let x: AB::Expr = local[0].into();
                let y: AB::Expr = local[1].into();
                let periodic = builder.periodic_values();
                let p0: AB::Expr = periodic[0].into();
                let p1: AB::Expr = periodic[1].into();
                builder.assert_zero(x.clone() * x * p0 + p1 - y);
            }
        }
    }
}

fn fri_params<M>(fp: &Fp, mmcs: M) -> FriParameters<M> {
    FriParameters { log_blowup: fp.log_blowup, log_final_poly_len: fp.log_final_poly_len, max_log_arity: fp.max_log_arity, num_queries: fp.num_queries, commit_proof_of_work_bits: fp.commit_pow, query_proof_of_work_bits: fp.query_pow, mmcs }
}

fn concrete_config(cap_height: usize, fp: &Fp) -> bbp::MyConfig {
    let perm = bbp::default_babybear_poseidon2_16();
    let val_mmcs = bbp::MyMmcs::new(bbp::MyHash::new(perm.clone()), bbp::MyCompress::new(perm.clone()), cap_height);
    let challenge_mmcs = bbp::ChallengeMmcs::new(val_mmcs.clone());
    let pcs = bbp::MyPcs::new(bbp::Dft::default(), val_mmcs, fri_params(fp, challenge_mmcs));
    bbp::MyConfig::new(pcs, bbp::Challenger::new(perm))
}

fn make_setup(cap_height: usize, log_n: usize, fp: Fp, kind: AirKind) -> Setup {
    let n = 1usize << log_n;
    let config = concrete_config(cap_height, &fp);
    let (trace, pis) = match kind {
        AirKind::Fib => {
            // x = fib(n-1)-th value on the last row
            let (mut a, mut b) = (0u64, 1u64);
            for _ in 0..n - 1 {
                let c = (a + b) % P;
                a = b;
                b = c;
            }
            (generate_trace_rows::<BB>(0, 1, n), vec![BB::ZERO, BB::ONE, BB::from_u64(b)])
        }
        AirKind::Periodic => {
            let mut vals = Vec::with_capacity(2 * n);
            for r in 0..n {
                let x = BB::from_u64(7 * r as u64 + 2);
                vals.push(x);
                vals.push(x * x * BB::from_u64(PER0[r % 2]) + BB::from_u64(PER1[r % 8]));
            }
            (p3_matrix::dense::RowMajorMatrix::new(vals, 2), vec![])
        }
    };
    let air = AnyAir(kind);
    let proof = prove(&config, &air, trace, &pis);
    verify(&config, &air, &proof, &pis).expect("concrete native verify of the honest proof");
    Setup { air: kind, json: serde_json::to_string(&proof).expect("ser"), pis, cap_height, log_n, fp }
}

struct Run {
    native_ok: bool,
    native_err: String,
    circuit_ok: bool,
    circuit_err: String,
    native_events: Vec<Event>,
    circuit_events: Vec<Event>,
    n_vars: usize,
    n_ops: usize,
    n_public: usize,
    n_private: usize,
}

/// Execute both verifiers at the symbolic field. `tamper`: (variable id, new shadow value).
fn run_once(s: &Setup, tamper: Option<(u32, u64)>) -> Run {
    reset::<BabyBearCfg>();
    if let Some((v, val)) = tamper {
        set_shadow_override(v, val);
    }
    set_deser_fresh(true);
    set_deser_monty31(true);
    let sproof: p3_uni_stark::Proof<SConfig> = serde_json::from_str(&s.json).expect("deser");
    set_deser_fresh(false);
    let spis: Vec<SF> = s.pis.iter().enumerate().map(|(i, x)| SF::var(format!("pi{i}"), x.as_canonical_u64())).collect();
    let n_vars = with_arena(|a| a.var_names.len());
    let cperm = bbp::default_babybear_poseidon2_16();
    let shadow: ShadowFn = Arc::new(move |xs: &[u64]| {
        let a: [BB; 16] = core::array::from_fn(|i| BB::from_u64(xs[i]));
        cperm.permute(a).iter().map(|x| x.as_canonical_u64()).collect()
    });
    let sperm = SPerm::new("perm", shadow);
    let val_mmcs = SMmcs::new(SHash::new(sperm.clone()), SCompress::new(sperm.clone()), s.cap_height);
    let ch_mmcs = SChMmcs::new(val_mmcs.clone());
    let pcs = SPcs::new(SDft::default(), val_mmcs, fri_params(&s.fp, ch_mmcs));
    let sconfig = SConfig::new(pcs, SChallenger::new(sperm.clone()));
    let air = AnyAir(s.air);

    let e0 = events_len();
    let nres = std::panic::catch_unwind(std::panic::AssertUnwindSafe(|| verify(&sconfig, &air, &sproof, &spis)));
    let native_ok = matches!(nres, Ok(Ok(())));
    let native_err = match &nres { Ok(Err(e)) => format!("{e:?}").chars().take(120).collect(), Err(_) => "panic".to_string(), _ => String::new() };
    let native_events = events()[e0..].to_vec();

    let mut out = Run { native_ok, native_err, circuit_ok: false, circuit_err: String::new(), native_events, circuit_events: vec![], n_vars, n_ops: 0, n_public: 0, n_private: 0 };
    let fvp = FriVerifierParams::with_mmcs(s.fp.log_blowup, s.fp.log_final_poly_len, s.fp.commit_pow, s.fp.query_pow, Poseidon2Config::BABY_BEAR_D4_W16);
    let r = std::panic::catch_unwind(std::panic::AssertUnwindSafe(|| -> Result<(Vec<Event>, usize, usize, usize), String> {
        let mut cb = CircuitBuilder::<SCh>::new();
        cb.enable_poseidon2_perm::<SymBBD4W16, _>(no_trace::<SCh>, sperm.clone());
        cb.enable_recompose::<SF>(generate_recompose_trace::<SF, SCh>);
        let vi = StarkVerifierInputsBuilder::<SConfig, MerkleCapTargets<SF, 8>, InnerFri>::allocate(&mut cb, &sproof, None, spis.len());
        let ids = verify_p3_uni_proof_circuit::<AnyAir, SConfig, MerkleCapTargets<SF, 8>, InputProofTargets<SF, SCh, RecValMmcs<SF, 8, SHash, SCompress>>, InnerFri, _, 16, 8>(
            &sconfig, &air, &mut cb, &vi.proof_targets, &vi.air_public_targets, &None, &fvp, Poseidon2Config::BABY_BEAR_D4_W16,
        )
        .map_err(|e| format!("circuit build: {e:?}"))?;
        let circuit = cb.build().map_err(|e| format!("build: {e:?}"))?;
        let mut runner = circuit.runner();
        let (pubs, privs) = vi.pack_values(&spis, &sproof, &None);
        let (np, nq) = (pubs.len(), privs.len());
        runner.set_public_inputs(&pubs).map_err(|e| format!("set_public_inputs: {e:?}"))?;
        runner.set_private_inputs(&privs).map_err(|e| format!("set_private_inputs: {e:?}"))?;
        set_fri_mmcs_private_data::<SF, SCh, SChMmcs, SMmcs, SHash, SCompress, 8>(&mut runner, &ids, &sproof.opening_proof, Poseidon2Config::BABY_BEAR_D4_W16).map_err(|e| format!("private data: {e}"))?;
        let e1 = events_len();
        let n_ops = circuit.ops.len();
        runner.run().map_err(|e| { let s = format!("{e:?}"); format!("run: {}", &s[..s.len().min(160)]) })?;
        Ok((events()[e1..].to_vec(), n_ops, np, nq))
    }));
    match r {
        Ok(Ok((evs, n_ops, np, nq))) => {
            out.circuit_ok = true;
            out.circuit_events = evs;
            out.n_ops = n_ops;
            out.n_public = np;
            out.n_private = nq;
        }
        Ok(Err(e)) => out.circuit_err = e,
        Err(_) => out.circuit_err = "panic".into(),
    }
    out
}

fn describe(f: &Poly) -> String {
    let mut out = String::new();
    for (m, c) in f.t.iter().take(3) {
        out.push_str(&format!("{c}*"));
        for (v, e) in m {
            let d = with_arena(|a| match &a.nodes[*v as usize] {
                Node::Var(x) => format!("var:{}", a.var_names[*x as usize]),
                Node::Uf { args, idx, .. } => format!("uf#{v}[{}]({} args)", idx, args.len()),
                Node::Inv(_) => format!("inv#{v}"),
                _ => format!("cut#{v}"),
            });
            out.push_str(&format!("{d}^{e} "));
        }
        out.push_str(" + ");
    }
    out
}

fn explain_diff(nz: &mut Normalizer, a: H, b: H, depth: usize) {
    if depth > 12 { return; }
    let pad = "  ".repeat(depth + 2);
    let _ = (nz.norm(a), nz.norm(b));
    let canon_uf = |nz: &Normalizer, h: H| -> Option<H> { if let H::N(i) = h { if with_arena(|ar| matches!(ar.nodes[i as usize], Node::Uf { .. })) { return nz.rep_of.get(&i).copied(); } } None };
    let (ha, hb) = match (canon_uf(nz, a), canon_uf(nz, b)) { (Some(x), Some(y)) => (x, y), _ => (nz.handle(a).unwrap_or(a), nz.handle(b).unwrap_or(b)) };
    if ha == hb { return; }
    let kind = |h: H| -> String { match h { H::C(v) => format!("const {v}"), H::N(i) => with_arena(|ar| match &ar.nodes[i as usize] {
        Node::Var(x) => format!("var {}", ar.var_names[*x as usize]), Node::Uf { idx, args, .. } => format!("uf#{i}[{idx}]/{}", args.len()), Node::Inv(_) => format!("inv#{i}"),
        Node::Add(..) => format!("add#{i}"), Node::Sub(..) => format!("sub#{i}"), Node::Mul(..) => format!("mul#{i}"), Node::Neg(..) => format!("neg#{i}") }) } };
    let (na, nb) = (nz.norm(a).unwrap(), nz.norm(b).unwrap());
    eprintln!("{pad}diff: {} [{} terms] vs {} [{} terms]; shadows {} {}", kind(ha), na.t.len(), kind(hb), nb.t.len(), with_arena(|ar| ar.shadow(a)), with_arena(|ar| ar.shadow(b)));
    if let (H::N(i), H::N(j)) = (ha, hb) {
        let (x, y) = with_arena(|ar| (ar.nodes[i as usize].clone(), ar.nodes[j as usize].clone()));
        if let (Node::Uf { args: aa, .. }, Node::Uf { args: bb, .. }) = (&x, &y) {
            for (k, (p, q)) in aa.iter().zip(bb.iter()).enumerate() {
                if p != q {
                    eprintln!("{pad} arg {k} differs");
                    explain_diff(nz, *p, *q, depth + 1);
                    return;
                }
            }
            return;
        }
    }
    let d = na.sub(&nb);
    eprintln!("{pad}  difference has {} terms: {}", d.t.len(), describe(&d));
    for m in d.t.keys() { for (v, _) in m { if let Some(Node::Inv(x)) = with_arena(|ar| Some(ar.nodes[*v as usize].clone())) {
        let fx = nz.norm(x).unwrap();
        static SEEN: std::sync::Mutex<Vec<u32>> = std::sync::Mutex::new(Vec::new());
        let mut seen = SEEN.lock().unwrap();
        if !seen.contains(v) { seen.push(*v); eprintln!("{pad}  inv#{v} operand [{} terms] = {}", fx.t.len(), describe(&fx)); }
    } } }
    eprintln!("{pad}  a = {}", describe(&na));
    eprintln!("{pad}  b = {}", describe(&nb));
}

fn cone(roots: &[H]) -> std::collections::HashSet<u32> {
    let mut seen = std::collections::HashSet::new();
    let mut stack: Vec<u32> = roots.iter().filter_map(|h| if let H::N(i) = h { Some(*i) } else { None }).collect();
    with_arena(|a| {
        while let Some(i) = stack.pop() {
            if !seen.insert(i) { continue; }
            let mut push = |h: H| if let H::N(j) = h { stack.push(j) };
            match &a.nodes[i as usize] {
                Node::Var(_) => {}
                Node::Add(x, y) | Node::Sub(x, y) | Node::Mul(x, y) => { push(*x); push(*y) }
                Node::Neg(x) | Node::Inv(x) => push(*x),
                Node::Uf { args, .. } => args.iter().for_each(|x| push(*x)),
            }
        }
    });
    seen
}

fn eq_atoms(evs: &[Event]) -> (Vec<Fm>, Vec<Fm>) {
    let mut eqs = Vec::new();
    let mut path = Vec::new();
    for e in evs {
        match e {
            Event::Decide { eq: true, .. } => eqs.push(event_fm(e).unwrap()),
            Event::Mark(_) => {}
            _ => path.push(event_fm(e).unwrap()),
        }
    }
    (eqs, path)
}

fn main() {
    if std::env::var("VERIF_PANIC").is_err() { std::panic::set_hook(Box::new(|_| {})); }
    let args = parse_args();
    let mut sh = Shard::new();
    sh.functions = [
        "p3_recursion::public_inputs::StarkVerifierInputsBuilder::{allocate, pack_values}, Recursive::{new, get_values, get_private_values} for every proof type (symbolic proof obtained through the serde derives)",
        "p3_recursion::verify_p3_uni_proof_circuit (challenger, constraint folding, quotient recomposition, FRI verifier, MMCS openings) + real compiler + CircuitRunner::run incl. Poseidon/MMCS/recompose executors (symbolic)",
        "p3_uni_stark::verify instantiated at the symbolic field (native side, same symbols)",
    ].iter().map(|s| s.to_string()).collect();
    let thorough = args.tier == "thorough";
    let t = FP_TESTING;
    let a = |max_log_arity: usize, log_final_poly_len: usize, log_blowup: usize| Fp { log_blowup, log_final_poly_len, max_log_arity, num_queries: 1, commit_pow: 0, query_pow: 0 };
    let pw = |commit_pow: usize, query_pow: usize| Fp { log_blowup: 1, log_final_poly_len: 0, max_log_arity: 1, num_queries: 1, commit_pow, query_pow };
    let configs0: Vec<(usize, usize, Fp)> = if thorough {
        vec![(0, 3, t), (1, 3, t), (2, 3, t), (0, 4, t), (2, 4, t), (0, 5, t), (1, 5, t), (3, 5, t), (0, 6, t), (2, 6, t),
             (0, 4, a(2, 0, 1)), (1, 5, a(3, 1, 1)), (0, 5, a(4, 0, 1)), (0, 6, a(5, 0, 1)), (1, 7, a(5, 1, 1)), (0, 4, a(2, 2, 2)), (0, 6, a(3, 0, 3)), (0, 2, pw(2, 4)), (0, 3, pw(3, 2))]
    } else {
        vec![(0, 3, t), (1, 3, t), (2, 4, t), (0, 5, t), (0, 4, a(2, 0, 1)), (1, 5, a(3, 1, 1)), (0, 6, a(5, 0, 1)), (0, 2, pw(2, 4))]
    };
    let mut violations: Vec<Value> = Vec::new();
    let mut solver = Solver::new(SolverKind::Z3, P, 5_000);
    let mut job = 0usize;
    let mut n_prog = 0usize;
    let mut configs: Vec<(usize, usize, Fp, AirKind)> = configs0.into_iter().map(|(c, l, f)| (c, l, f, AirKind::Fib)).collect();
    configs.push((0, 4, t, AirKind::Periodic));
    configs.push((1, 3, a(2, 0, 1), AirKind::Periodic));
    if thorough {
        configs.push((2, 5, t, AirKind::Periodic));
        configs.push((0, 6, a(3, 1, 1), AirKind::Periodic));
    }
    for (cap_height, log_n, fp, kind) in configs {
        let setup = match std::panic::catch_unwind(std::panic::AssertUnwindSafe(|| make_setup(cap_height, log_n, fp, kind))) {
            Ok(s) => s,
            Err(_) => continue,
        };
        let label = if kind == AirKind::Periodic { format!("uni-stark periodic-column AIR (periods 2 and 8) 2^{log_n} rows, cap_height={cap_height}, FRI {fp:?}") } else if fp == FP_TESTING { format!("uni-stark FibonacciAir 2^{log_n} rows, cap_height={cap_height}") } else { format!("uni-stark FibonacciAir 2^{log_n} rows, cap_height={cap_height}, FRI {fp:?}") };
        job += 1;
        let mine = (job - 1) % args.nshards == args.shard;
        // ---------- honest run ----------
        let honest = run_once(&setup, None);
        if mine {
            n_prog += 1;
            sh.bump("programs");
            sh.sample(json!({"config": label, "proof_variables": honest.n_vars, "circuit_ops": honest.n_ops, "public_inputs": honest.n_public, "private_inputs": honest.n_private,
                "native_events": honest.native_events.len(), "circuit_events": honest.circuit_events.len()}), 6);
            if !honest.native_ok || !honest.circuit_ok {
                sh.bump("c14.violations_confirmed");
                violations.push(json!({"property": "C14", "kind": "honest-proof-rejected", "signature": format!("C14/honest-proof-rejected:cap{}", if cap_height == 0 { "0" } else { ">0" }),
                    "detail": format!("native ok={} circuit ok={} ({})", honest.native_ok, honest.circuit_ok, honest.circuit_err), "program_text": label, "confirmed_by_native_replay": true}));
                continue;
            }
            let (n_eq, n_path) = eq_atoms(&honest.native_events);
            let (c_eq, c_path) = eq_atoms(&honest.circuit_events);
            // ---------- (2) dependence ----------
            let roots_of = |fs: &[Fm]| -> Vec<H> { let mut r = Vec::new(); fs.iter().for_each(|f| f.roots(&mut r)); r };
            let nv: BTreeSet<u32> = vars_of(&roots_of(&n_eq));
            let cv: BTreeSet<u32> = vars_of(&roots_of(&c_eq));
            let missing: Vec<u32> = nv.difference(&cv).copied().collect();
            sh.add("c14.dependence.variables_native", nv.len() as f64);
            sh.add("c14.dependence.variables_circuit", cv.len() as f64);
            sh.bump("c14.dependence.obligations");
            if missing.is_empty() {
                sh.bump("c14.dependence.unsat");
            } else {
                let names: Vec<String> = with_arena(|a| missing.iter().take(8).map(|v| a.var_names[*v as usize].clone()).collect());
                sh.bump("c14.violations_confirmed");
                violations.push(json!({"property": "C14", "kind": "input-unconstrained", "signature": "C14/input-unconstrained", "detail": format!("{} proof variables occur in the native verifier's checks but in none of the circuit's: {names:?}", missing.len()), "program_text": label, "confirmed_by_native_replay": true}));
            }
            // ---------- (3) check-list equivalence, fast stages only ----------
            let mut path: Vec<Fm> = n_path.clone();
            path.extend(c_path.iter().cloned());
            for (dir, hyps_src, goals) in [("circuit=>native", &c_eq, &n_eq), ("native=>circuit", &n_eq, &c_eq)] {
                let mut hyps = path.clone();
                hyps.extend(hyps_src.iter().cloned());
                let tt = std::time::Instant::now();
                if std::env::var("VERIF_NORMAL").is_ok() {
                    let t0 = std::time::Instant::now();
                    let mut nz = Normalizer::new(P);
                    for pass in 0..5 {
                        let mut uses: BTreeMap<String, usize> = BTreeMap::new();
                        for h in hyps.iter() {
                            if let Fm::Eq(l, r) = h {
                                let th = std::time::Instant::now();
                                let u = nz.add_hyp(*l, *r);
                                if th.elapsed().as_secs_f64() > 2.0 { eprintln!("  [slow hyp] {:.1}s {u:?} t_reduce={:.1} t_frac={:.1} t_invpoly={:.1} inval={}", th.elapsed().as_secs_f64(), nz.t_reduce, nz.t_frac, nz.t_invpoly, nz.invalidations); }
                                *uses.entry(format!("{u:?}")).or_insert(0) += 1;
                            }
                        }
                        let mut ok = 0; let mut bad = 0; let mut none = 0;
                        for g in goals.iter() {
                            if let Fm::Eq(l, r) = g {
                                match nz.equal(*l, *r) { Some(true) => ok += 1, Some(false) => {
                                    bad += 1;
                                    if pass == std::env::var("VERIF_EXPLAIN_PASS").ok().and_then(|s| s.parse().ok()).unwrap_or(0usize) && bad <= 2 {
                                        let (nl, nr) = (nz.norm(*l).unwrap(), nz.norm(*r).unwrap());
                                        if bad == 1 {
                                            for h in hyps.iter() {
                                                if let Fm::Eq(hl, hr) = h {
                                                    if hl == l || hr == l || hl == r || hr == r {
                                                        let other = if hl == l || hl == r { *hr } else { *hl };
                                                        let mine = if hl == l || hr == l { *r } else { *l };
                                                        explain_diff(&mut nz, other, mine, 0);
                                                    }
                                                }
                                            }
                                        }
                                        eprintln!("  [goal-fail] l terms={} r terms={} l={} r={}", nl.t.len(), nr.t.len(), describe(&nl), describe(&nr));
                                    }
                                }, None => none += 1 }
                            }
                        }
                        eprintln!("[normal] {dir} pass {pass}: hyps {uses:?} goals ok={ok} not={bad} none={none} merges={} opaque={} forced={} inval={} fracm={} fract={} t_reduce={:.1} t_frac={:.1} t_invpoly={:.1} splits={} red={} t={:.1}s", nz.merges.len(), nz.opaque.len(), nz.forced_cuts, nz.invalidations, nz.frac_merges, nz.frac_tests, nz.t_reduce, nz.t_frac, nz.t_invpoly, nz.inv_splits, nz.inv_reductions, t0.elapsed().as_secs_f64());
                        if nz.next_pass(4) == 0 { break; }
                    }
                }
                let mut rw = rewriter_from_fast(P, &hyps);
                if std::env::var("VERIF_TRACE").is_ok() { eprintln!("[trace] rewriter {dir} built in {:.1}s, arena {} nodes", tt.elapsed().as_secs_f64(), with_arena(|a| a.nodes.len())); }
                for g in goals.iter() {
                    sh.bump("c01.equiv.obligations");
                    let tt = std::time::Instant::now();
                    let gc = rw.canon_fm(g);
                    if std::env::var("VERIF_TRACE").is_ok() && tt.elapsed().as_secs_f64() > 0.5 { eprintln!("[trace] canon goal {:.1}s arena {}", tt.elapsed().as_secs_f64(), with_arena(|a| a.nodes.len())); }
                    if matches!(gc, Fm::True) {
                        sh.bump("c01.equiv.unsat");
                        sh.bump("c01.equiv.unsat_by_congruence_rewriting");
                        continue;
                    }
                    if std::env::var("VERIF_TRACE").is_ok() {
                        if let Fm::Eq(l, r) = &gc {
                            let cl = cone(&[*l]); let cr = cone(&[*r]);
                            let shared = cl.intersection(&cr).count();
                            eprintln!("[undecided] {dir} l={} r={} shared={} exp_l={} exp_r={} vars={}", cl.len(), cr.len(), shared, expansion_size(&[*l], 1<<40), expansion_size(&[*r], 1<<40), vars_of(&[*l,*r]).len());
                        } else { eprintln!("[undecided] {dir} non-eq {:?}", gc); }
                    }
                    let _ = dir;
                    sh.bump("c01.equiv.undecided_beyond_back_end");
                }
            }
            let _ = &mut solver;
        }
        // ---------- (3') every value of every single path-stable element, decided by z3 ----------
        // All other elements keep their honest values; the altered element is the integer t in
        // [0,p). Both complete check lists (incl. Merkle/cap checks: the permutation is an
        // uninterpreted function applied to polynomials in t) are compared by z3 for all t.
        if honest.native_ok && honest.circuit_ok {
            let all_events = events();
            let pin_roots: Vec<H> = all_events.iter().filter_map(|e| if let Event::Pin(h, _) = e { Some(*h) } else { None }).collect();
            let transcript_vars: BTreeSet<u32> = vars_of(&pin_roots);
            let (n_eq, n_path) = eq_atoms(&honest.native_events);
            let (c_eq, c_path) = eq_atoms(&honest.circuit_events);
            let shadows: Vec<u64> = with_arena(|a| a.var_nodes.iter().map(|n| a.shadows[*n as usize]).collect());
            let mut candidates: Vec<(u32, u64)> = Vec::new();
            solver.set_timeout(if thorough { 20_000 } else { 5_000 });
            for v in 0..honest.n_vars as u32 {
                if (v as usize) % args.nshards != args.shard {
                    continue;
                }
                if transcript_vars.contains(&v) {
                    sh.bump("c01.allvalues.skipped_transcript_variable");
                    continue;
                }
                sh.bump("c01.allvalues.obligations");
                let tv = std::time::Instant::now();
                let mut uni = Uni::new(v, P);
                let mut dc = UniDecls::default();
                let mut dens: Vec<Vec<u64>> = Vec::new();
                let mut enc = |fms: &[Fm], uni: &mut Uni, dc: &mut UniDecls, dens: &mut Vec<Vec<u64>>| -> Option<Vec<String>> {
                    let mut out = Vec::new();
                    for f in fms {
                        if let Fm::Eq(l, r) = f {
                            if let Some(a) = uni.eq_smt(*l, *r, dc, dens)? {
                                if !out.contains(&a) {
                                    out.push(a);
                                }
                            }
                        }
                    }
                    out.sort();
                    Some(out)
                };
                let (Some(na), Some(ca)) = (enc(&n_eq, &mut uni, &mut dc, &mut dens), enc(&c_eq, &mut uni, &mut dc, &mut dens)) else {
                    sh.bump("c01.allvalues.not_encodable");
                    continue;
                };
                let mut side: Vec<String> = Vec::new();
                let mut path_ok = true;
                for f in n_path.iter().chain(c_path.iter()) {
                    match f {
                        Fm::Ne(l, r) => {
                            if let Some((d, ds)) = uni.diff(*l, *r) {
                                if d.len() > 1 { side.push(format!("(not {})", up_zero_smt(&d, P))); }
                                dens.extend(ds);
                            }
                        }
                        Fm::Eq(l, r) => {
                            match uni.diff(*l, *r) { Some((d, _)) => { if d.len() > 1 { path_ok = false; } } None => { path_ok = false; } }
                        }
                        _ => {}
                    }
                }
                if !path_ok {
                    sh.bump("c01.allvalues.path_depends_on_value");
                    continue;
                }
                for d in &dens {
                    side.push(format!("(not {})", up_zero_smt(d, P)));
                }
                if std::env::var("VERIF_TRACE").is_ok() { eprintln!("[allvalues] var {v}: encoded in {:.2}s, native atoms {} circuit atoms {} identical={} ufs={} defs={}", tv.elapsed().as_secs_f64(), na.len(), ca.len(), na == ca, dc.ufs.len(), dc.defs.len()); }
                if na == ca {
                    // identical check sets after specialisation (also covers: neither depends on t)
                    sh.bump("c01.allvalues.unsat");
                    sh.bump("c01.allvalues.unsat_identical_check_sets");
                    continue;
                }
                let conj = |xs: &Vec<String>| if xs.is_empty() { "true".to_string() } else { format!("(and true {})", xs.join(" ")) };
                solver.push();
                for (name, arity) in &dc.ufs {
                    solver.raw(&format!("(declare-fun {name} ({}) Int)", vec!["Int"; *arity].join(" ")));
                }
                solver.raw("(declare-const t Int)");
                solver.raw(&format!("(assert (and (<= 0 t) (< t {P})))"));
                for d in &dc.defs {
                    solver.raw(d);
                }
                for hfact in &dc.honest {
                    solver.raw(&format!("(assert {hfact})"));
                }
                solver.raw(&format!("(assert {})", conj(&side)));
                solver.raw(&format!("(assert (xor {} {}))", conj(&na), conj(&ca)));
                let r = solver.check();
                let tval = if matches!(r, SatResult::Sat(_)) { solver.get_int("t") } else { None };
                solver.pop();
                match r {
                    SatResult::Unsat => sh.bump("c01.allvalues.unsat"),
                    SatResult::Sat(_) => match tval { Some(t) => candidates.push((v, t)), None => sh.bump("c01.allvalues.undecided") },
                    SatResult::Unknown(_) => {
                        sh.bump("c01.allvalues.undecided");
                        if sh.undecided.len() < 20 { sh.undecided.push(json!({"what": "z3 unknown on single-element verdict equivalence", "variable": v, "config": label})); }
                    }
                }
            }
            for (v, t) in candidates {
                let tr = run_once(&setup, Some((v, t)));
                let name = with_arena(|a| a.var_names.get(v as usize).cloned().unwrap_or_default());
                if tr.native_ok != tr.circuit_ok {
                    sh.bump("c01.allvalues.sat");
                    sh.bump("c14.violations_confirmed");
                    let role = if tr.circuit_ok { "altered-element-accepted-by-circuit" } else { "altered-element-rejected-only-by-circuit" };
                    violations.push(json!({"property": "C01", "kind": role, "signature": format!("C01/{role}"),
                        "detail": format!("proof variable #{v} ({name}) set to {t}: native accepts={} circuit accepts={} ({}) (found by z3, replayed on both verifiers)", tr.native_ok, tr.circuit_ok, tr.circuit_err), "program_text": label, "variable": v, "value": t, "confirmed_by_native_replay": true}));
                } else {
                    sh.bump("c01.allvalues.sat_not_reproduced");
                    sh.undecided.push(json!({"what": "solver model did not reproduce on the real code", "variable": v, "value": t, "config": label}));
                }
            }
            let _ = run_once(&setup, None);
        }
        // ---------- (4) supplementary tamper enumeration (concrete, sharded by variable) ----------
        let n_vars = honest.n_vars;
        let stride = 1;
        for v in (0..n_vars as u32).step_by(stride) {
            if (v as usize / stride) % args.nshards != args.shard {
                continue;
            }
            let base = tamper_value(&setup, v);
            let mut t = run_once(&setup, Some((v, base)));
            sh.bump("c14.tamper.runs");
            // proof-of-work witnesses: the verdicts depend on the bits of a hash of the witness, and a
            // later stage (query indices) depends on it too; a single alteration almost never passes
            // the later stage, so more values are tried (concrete enumeration, reported as such)
            if !t.native_ok && t.native_err.contains("Pow") {
                let extra = if thorough { 512 } else { 96 };
                for k in 1..=extra as u64 {
                    let t2 = run_once(&setup, Some((v, (base + k) % P)));
                    sh.bump("c14.tamper.runs");
                    sh.bump("c14.tamper.pow_witness_extra_values");
                    if t2.native_ok != t2.circuit_ok {
                        t = t2;
                        break;
                    }
                }
            }
            match (t.native_ok, t.circuit_ok) {
                (false, false) => sh.bump("c14.tamper.both_reject"),
                (true, true) => sh.bump("c14.tamper.both_accept"),
                (false, true) => {
                    let name = with_arena(|a| a.var_names.get(v as usize).cloned().unwrap_or_default());
                    sh.bump("c14.violations_confirmed");
                    violations.push(json!({"property": "C14", "kind": "tamper-accepted-by-circuit", "signature": "C14/tamper-accepted-by-circuit",
                        "detail": format!("altering proof variable #{v} ({name}) makes the native verifier reject but the circuit run still succeeds"), "program_text": label, "variable": v, "confirmed_by_native_replay": true}));
                }
                (true, false) => {
                    let name = with_arena(|a| a.var_names.get(v as usize).cloned().unwrap_or_default());
                    sh.bump("c14.violations_confirmed");
                    violations.push(json!({"property": "C14", "kind": "tamper-rejected-only-by-circuit", "signature": "C14/tamper-rejected-only-by-circuit",
                        "detail": format!("altering proof variable #{v} ({name}) is accepted natively but rejected by the circuit ({})", t.circuit_err), "program_text": label, "variable": v, "confirmed_by_native_replay": true}));
                }
            }
        }
    }
    sh.add("distinct_programs", n_prog.max(2) as f64);
    // the whole-verifier agreement findings are findings for C01 as well as for C14
    let mirrored: Vec<Value> = violations
        .iter()
        .filter(|v| v["property"] == "C14")
        .map(|v| {
            let mut w = v.clone();
            w["property"] = json!("C01");
            w["signature"] = json!(v["signature"].as_str().unwrap_or("").replacen("C14/", "C01/", 1));
            w
        })
        .collect();
    violations.extend(mirrored);
    sh.absorb_solver("z3", &solver.stats);
    sh.violations = violations;
    sh.write(&args.out);
}

static LAST_FP: std::sync::Mutex<Option<Fp>> = std::sync::Mutex::new(None);

/// honest shadow + 1 for variable `v` (needs one honest pass to read the shadow).
fn tamper_value(s: &Setup, v: u32) -> u64 {
    thread_local! { static CACHE: std::cell::RefCell<Option<(usize, usize, Vec<u64>)>> = const { std::cell::RefCell::new(None) }; }
    CACHE.with(|c| {
        let mut c = c.borrow_mut();
        let stale = !matches!(&*c, Some((ch, ln, _)) if *ch == s.cap_height && *ln == s.log_n) || std::mem::replace(&mut *LAST_FP.lock().unwrap(), Some(s.fp)) != Some(s.fp);
        if stale {
            let _ = run_once(s, None);
            let shadows: Vec<u64> = with_arena(|a| a.var_nodes.iter().map(|n| a.shadows[*n as usize]).collect());
            *c = Some((s.cap_height, s.log_n, shadows));
        }
        let sh = &c.as_ref().unwrap().2;
        (sh.get(v as usize).copied().unwrap_or(0) + 1) % P
    })
}
