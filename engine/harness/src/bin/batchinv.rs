//! probe: can z3 decide the Montgomery batch-inverse identity at the degree-4 extension?
use harness::common::*;
use p3_field::extension::BinomialExtensionField;
use p3_field::{BasedVectorSpace, Field, PrimeCharacteristicRing, batch_multiplicative_inverse};

type F = SymBB;
type EF = BinomialExtensionField<F, 4>;
fn main() {
    reset::<BabyBearCfg>();
    let n: usize = std::env::args().nth(1).and_then(|s| s.parse().ok()).unwrap_or(3);
    let z: Vec<F> = (0..4).map(|i| F::var(format!("z{i}"), 1000 + 77 * i as u64)).collect();
    let zeta = EF::from_basis_coefficients_slice(&z).unwrap();
    let g = EF::from(F::from_u64(31));
    let x = EF::from(F::from_u64(123456));
    let mut dens = vec![zeta - x, zeta * g - x, zeta - x];
    if n >= 4 { dens.push(zeta * g * g - x); }
    dens.truncate(n);
    let batch = batch_multiplicative_inverse(&dens);
    let mut s = Solver::new(SolverKind::Z3, BabyBearCfg::P, 20_000);
    let mut nz = Normalizer::new(BabyBearCfg::P);
    let batch_first = std::env::var("ORDER").map(|s| s == "batch").unwrap_or(false);
    let z3 = std::env::var("Z3").is_ok();
    for (i, d) in dens.iter().enumerate() {
        let direct = d.inverse();
        for c in 0..4 {
            let a = <EF as BasedVectorSpace<F>>::as_basis_coefficients_slice(&batch[i])[c].h();
            let b = <EF as BasedVectorSpace<F>>::as_basis_coefficients_slice(&direct)[c].h();
            let t = std::time::Instant::now();
            let eq = if batch_first { nz.equal(a, b) } else { nz.equal(b, a) };
            println!("den {i} coord {c}: normalizer equal = {eq:?} in {:.2}s (splits {} reductions {} fracm {})", t.elapsed().as_secs_f64(), nz.inv_splits, nz.inv_reductions, nz.frac_merges);
            if eq != Some(true) {
                let (fa, fb) = (nz.norm(a).unwrap(), nz.norm(b).unwrap());
                let show = |f: &Poly| { let mut inv: std::collections::BTreeMap<Vec<(u32,u32)>, usize> = Default::default(); for m in f.t.keys() { let sig: Vec<(u32,u32)> = m.iter().filter(|(v, _)| with_arena(|ar| matches!(ar.nodes[*v as usize], Node::Inv(_)))).cloned().collect(); *inv.entry(sig).or_insert(0) += 1; } format!("{} terms, inv signatures {:?}", f.t.len(), inv) };
                println!("   batch: {}", show(&fa));
                println!("   direct: {}", show(&fb));
            }
            if !z3 { continue; }
            let script = nz.lemma_script(a, b, false).unwrap();
            s.push();
            s.raw(&script);
            let r = s.check_som();
            s.pop();
            println!("   z3: {:?} in {:.2}s", match r { SatResult::Unsat => "unsat".to_string(), SatResult::Sat(_) => "sat".into(), SatResult::Unknown(e) => format!("unknown {e}") }, t.elapsed().as_secs_f64());
        }
    }
}
