//! C20: verifier arithmetic gadgets equal their native counterparts.
//! The real in-circuit gadgets (reached through the real `RecursivePcs` impl of `TwoAdicFriPcs`
//! instantiated at the symbolic field) are compiled and run on a symbolic evaluation point;
//! the native p3 functions (`PolynomialSpace::{selectors_at_point, vanishing_poly_at_point,
//! evaluate_periodic_column_at}`, `exp_power_of_2`) are executed on the same symbols; z3 decides
//! equality of every output coordinate under the recorded preconditions (point outside the domain).
use harness::common::*;
use p3_challenger::DuplexChallenger;
use p3_circuit::CircuitBuilder;
use p3_commit::{ExtensionMmcs, PolynomialSpace};
use p3_dft::Radix2DitParallel;
use p3_field::coset::TwoAdicMultiplicativeCoset;
#[allow(unused_imports)]
use p3_field::extension::BinomialExtensionField;
use p3_field::{BasedVectorSpace, Field, PrimeCharacteristicRing};
use p3_fri::{FriParameters, TwoAdicFriPcs};
use p3_merkle_tree::MerkleTreeMmcs;
use p3_recursion::pcs::fri::{FriProofTargets, InputProofTargets, MerkleCapTargets, RecExtensionValMmcs, RecValMmcs, Witness};
use p3_recursion::traits::RecursivePcs;
use p3_symmetric::{PaddingFreeSponge, TruncatedPermutation};
use p3_uni_stark::StarkConfig;
use serde_json::{Value, json};
use std::sync::Arc;

type SF = SymBB;
type SCh4 = BinomialExtensionField<SF, 4>;
#[cfg(not(c20_d4))]
type SCh = SF;
#[cfg(c20_d4)]
type SCh = SCh4;
type SPerm = SymPerm<16>;
type SHash = PaddingFreeSponge<SPerm, 16, 8, 8>;
type SCompress = TruncatedPermutation<SPerm, 2, 8, 16>;
type SMmcs = MerkleTreeMmcs<SF, SF, SHash, SCompress, 2, 8>;
type SChMmcs = ExtensionMmcs<SF, SCh, SMmcs>;
type SChallenger = DuplexChallenger<SF, SPerm, 16, 8>;
type SDft = Radix2DitParallel<SF>;
type SPcs = TwoAdicFriPcs<SF, SDft, SMmcs, SChMmcs>;
type SConfig = StarkConfig<SPcs, SCh, SChallenger>;
type InputProof = InputProofTargets<SF, SCh, RecValMmcs<SF, 8, SHash, SCompress>>;
type InnerFri = FriProofTargets<SF, SCh, RecExtensionValMmcs<SF, SCh, 8, RecValMmcs<SF, 8, SHash, SCompress>>, InputProof, Witness<SF>>;
type Dom = TwoAdicMultiplicativeCoset<SF>;
const P: u64 = BabyBearCfg::P;

fn mk_pcs() -> SPcs {
    let sperm = SPerm::new("perm", Arc::new(|xs: &[u64]| xs.to_vec()));
    let val_mmcs = SMmcs::new(SHash::new(sperm.clone()), SCompress::new(sperm.clone()), 0);
    let ch_mmcs = SChMmcs::new(val_mmcs.clone());
    SPcs::new(SDft::default(), val_mmcs, FriParameters::new_testing(ch_mmcs, 0))
}

fn sel_circuit(pcs: &SPcs, cb: &mut CircuitBuilder<SCh>, d: &Dom, pt: &p3_circuit::ExprId) -> p3_recursion::types::RecursiveLagrangeSelectors {
    <SPcs as RecursivePcs<SConfig, InputProof, InnerFri, MerkleCapTargets<SF, 8>, Dom>>::selectors_at_point_circuit(pcs, cb, d, pt)
}
fn periodic_circuit(pcs: &SPcs, cb: &mut CircuitBuilder<SCh>, d: &Dom, cols: &[Vec<SF>], pt: p3_circuit::ExprId) -> Vec<p3_circuit::ExprId> {
    <SPcs as RecursivePcs<SConfig, InputProof, InnerFri, MerkleCapTargets<SF, 8>, Dom>>::evaluate_periodic_columns_at_point_circuit(pcs, cb, d, cols, pt).expect("periodic")
}

fn main() {
    let args = parse_args();
    let mut sh = Shard::new();
    sh.functions = [
        "<TwoAdicFriPcs as RecursivePcs>::selectors_at_point_circuit / evaluate_periodic_columns_at_point_circuit (verifier::periodic::evaluate_periodic_columns_circuit), CircuitBuilder::exp_power_of_2 + real compiler + runner (symbolic point)",
        "p3_commit::PolynomialSpace for TwoAdicMultiplicativeCoset: selectors_at_point, vanishing_poly_at_point, evaluate_periodic_column_at; PrimeCharacteristicRing::exp_power_of_2 (native side, same symbols)",
    ].iter().map(|s| s.to_string()).collect();
    let thorough = args.tier == "thorough";
    let max_log = if thorough { 6 } else { 3 };
    let mut violations: Vec<Value> = Vec::new();
    let mut solver = Solver::new(SolverKind::Z3, P, if thorough { 60_000 } else { 15_000 });
    let pcs = mk_pcs();
    let mut job = 0usize;
    let mut n_inst = 0usize;
    let mut st = args.seed ^ 0xC20;
    let mut rnd = move || {
        st = st.wrapping_mul(6364136223846793005).wrapping_add(1442695040888963407);
        1 + (st >> 20) % (P - 1)
    };
    for log_size in 0..=max_log {
        for shift_kind in 0..2 {
            // pm_*: several periodic columns in ONE call, in ascending / descending / mixed period
            // order (the per-call state of the gadget must not leak from one column to the next)
            for gadget in ["selectors", "periodic1", "periodic2", "periodic4", "periodic2z", "periodic4z", "periodic4s", "periodic4m", "exp", "pm_2_4", "pm_4_2", "pm_1_2_4_2", "pm_2_4_8", "pm_8_4_2_8", "pm_2_1_8_4", "quotient1", "quotient2", "quotient4", "quotient8"] {
                job += 1;
                if job % args.nshards != args.shard {
                    continue;
                }
                let multi: Vec<usize> = if let Some(rest) = gadget.strip_prefix("pm_") { rest.split('_').map(|x| x.parse().unwrap()).collect() } else { vec![] };
                // quotient recomposition: the quotient domain of the trace coset is split into n chunk
                // domains; chunk coefficients are symbolic
                let n_chunks: usize = gadget.strip_prefix("quotient").map(|x| x.parse().unwrap()).unwrap_or(0);
                if n_chunks > 0 && log_size > 4 {
                    continue;
                }
                let period = match gadget { "periodic1" => 1usize, "periodic2" | "periodic2z" => 2, "periodic4" | "periodic4z" | "periodic4s" | "periodic4m" => 4, _ => multi.iter().copied().max().unwrap_or(0) };
                if period > (1 << log_size) {
                    continue;
                }
                // multi-column calls at log sizes 5 and 6 produce quotients the solver does not decide
                // (measured: 16 undecided obligations); they stay at log sizes <= 4
                if !multi.is_empty() && log_size > 4 {
                    continue;
                }
                n_inst += 1;
                sh.bump("programs");
                reset::<BabyBearCfg>();
                let shift = if shift_kind == 0 { SF::ONE } else { SF::GENERATOR };
                let dom = Dom::new(shift, log_size).expect("coset");
                let zeta: SCh = SCh::from_basis_coefficients_fn(|j| SF::var(format!("z{j}"), rnd()));
                let label = format!("{gadget} log_size={log_size} shift={}", if shift_kind == 0 { "1" } else { "g" });
                if std::env::var("VERIF_TRACE").is_ok() {
                    eprintln!("[trace] instance {label}");
                }
                // ---- native ----
                let mut native: Vec<(String, SCh)> = Vec::new();
                // column shapes: random, zero-mean (vanishing constant coefficient), sparse, and
                // columns whose interpolant has vanishing middle coefficients
                let cols: Vec<Vec<SF>> = match gadget {
                    "periodic2z" => vec![vec![SF::c(1), SF::c(P - 1)]],
                    "periodic4z" => vec![vec![SF::c(5), SF::c(7), SF::c(P - 3), SF::c(P - 9)]],
                    "periodic4s" => vec![vec![SF::c(1), SF::c(0), SF::c(P - 1), SF::c(0)]],
                    "periodic4m" => vec![vec![SF::c(1), SF::c(1), SF::c(0), SF::c(0)]],
                    _ if !multi.is_empty() => multi.iter().map(|p| (0..*p).map(|_| SF::c(rnd())).collect()).collect(),
                    _ if period > 0 => vec![(0..period).map(|_| SF::c(rnd())).collect()],
                    _ => vec![],
                };
                let (qdoms, qchunks): (Vec<Dom>, Vec<Vec<SCh>>) = if n_chunks > 0 {
                    let qdom = dom.create_disjoint_domain((1usize << log_size) * n_chunks);
                    let ds = qdom.split_domains(n_chunks);
                    let cs = (0..n_chunks)
                        .map(|i| (0..<SCh as BasedVectorSpace<SF>>::DIMENSION).map(|k| SCh::from(SF::var(format!("q{i}_{k}"), rnd()))).collect())
                        .collect();
                    (ds, cs)
                } else {
                    (vec![], vec![])
                };
                match gadget {
                    _ if n_chunks > 0 => {
                        let base_chunks: Vec<Vec<SCh>> = qchunks.clone();
                        native.push(("quotient".into(), p3_uni_stark::recompose_quotient_from_chunks::<SConfig>(&qdoms, &base_chunks, zeta)));
                    }
                    "selectors" => {
                        let s = dom.selectors_at_point(zeta);
                        native.push(("is_first_row".into(), s.is_first_row));
                        native.push(("is_last_row".into(), s.is_last_row));
                        native.push(("is_transition".into(), s.is_transition));
                        native.push(("inv_vanishing".into(), s.inv_vanishing));
                    }
                    "exp" => native.push(("exp_power_of_2".into(), zeta.exp_power_of_2(log_size + 1))),
                    _ => {
                        for (k, c) in cols.iter().enumerate() {
                            native.push((format!("periodic[{k}]"), dom.evaluate_periodic_column_at(c, zeta)));
                        }
                    }
                }
                // ---- circuit ----
                let mut cb = CircuitBuilder::<SCh>::new();
                let pt = cb.public_input();
                let qtargets: Vec<Vec<p3_circuit::ExprId>> = qchunks.iter().map(|c| c.iter().map(|_| cb.public_input()).collect()).collect();
                let outs: Vec<p3_circuit::ExprId> = match gadget {
                    _ if n_chunks > 0 => vec![p3_recursion::verifier::recompose_quotient_from_chunks_circuit::<SConfig, InputProof, InnerFri, MerkleCapTargets<SF, 8>, Dom>(&mut cb, &qdoms, &qtargets, pt, &pcs)],
                    "selectors" => {
                        let s = sel_circuit(&pcs, &mut cb, &dom, &pt);
                        vec![s.row_selectors.is_first_row, s.row_selectors.is_last_row, s.row_selectors.is_transition, s.inv_vanishing]
                    }
                    "exp" => vec![cb.exp_power_of_2(pt, log_size + 1)],
                    _ => periodic_circuit(&pcs, &mut cb, &dom, &cols, pt),
                };
                let circuit = cb.build().expect("build");
                let mut runner = circuit.runner();
                let mut pubs = vec![zeta];
                pubs.extend(qchunks.iter().flatten().copied());
                runner.set_public_inputs(&pubs).unwrap();
                let tr = match runner.run() {
                    Ok(t) => t,
                    Err(e) => {
                        violations.push(json!({"property": "C20", "kind": "circuit-run-fails", "signature": format!("C20/circuit-run-fails:{gadget}"), "detail": format!("{e:?}"), "program_text": label, "confirmed_by_native_replay": true}));
                        continue;
                    }
                };
                let hyps: Vec<Fm> = events().iter().filter_map(event_fm).collect();
                sh.sample(json!({"instance": label, "preconditions": hyps.len(), "circuit_ops": circuit.ops.len()}), 10);
                let mut rw = rewriter_from(P, &hyps, false);
                solver.push();
                'outer: for ((name, nv), t) in native.iter().zip(&outs) {
                    let cv: SCh = *tr.witness_trace.get_value(circuit.expr_to_widx[t]).unwrap();
                    let cs: &[SF] = cv.as_basis_coefficients_slice();
                    let ns: &[SF] = nv.as_basis_coefficients_slice();
                    for (j, (c, n)) in cs.iter().zip(ns).enumerate() {
                        let goal = Fm::Eq(c.h(), n.h());
                        match discharge(&mut solver, &mut rw, &hyps, &goal, &mut sh, "c20") {
                            Verdict::Holds => {}
                            Verdict::Cex(_) => {
                                let differs = c.shadow() != n.shadow();
                                let v = json!({"property": "C20", "kind": "value-differs", "signature": format!("C20/value-differs:{gadget}:{name}"), "detail": format!("{label}: coordinate {j} of {name} differs from the native value"), "program_text": label, "confirmed_by_native_replay": differs});
                                if differs {
                                    sh.bump("c20.violations_confirmed");
                                    violations.push(v);
                                } else {
                                    sh.undecided.push(json!({"non_reproducing_counterexample": v}));
                                }
                                break 'outer;
                            }
                            Verdict::Undecided(w) => sh.undecided.push(json!({"program": label, "ob": format!("{name}[{j}]"), "why": w})),
                        }
                    }
                }
                solver.pop();
            }
        }
    }
    sh.add("distinct_programs", n_inst as f64);
    sh.absorb_solver("z3", &solver.stats);
    sh.violations = violations;
    sh.write(&args.out);
}
