//! C12: bit / coefficient decompositions admit only the canonical witness.
//!
//! The real gadgets (`decompose_to_bits`, `reconstruct_index_from_bits`,
//! `decompose_ext_to_base_coeffs`) are compiled by the real compiler; hint executors are
//! replaced by `FreeHint` (outputs = fresh variables: the prover's choice) and the real runner
//! is executed on `SymF`. The recorded path condition (the recomposition identity enforced by
//! `connect`) plus the BoolCheck relations of the emitted ops are the constraints an accepted
//! proof satisfies. Bit-level obligations are decided in QF_BV (z3), coefficient-level ones in
//! Int:
//!   Q1: exists a satisfying assignment whose bits, read as an integer, are >= p (non-canonical)
//!   Q2: exists two satisfying assignments with the same decomposed value and different bits
//!   Q3: exists a satisfying assignment whose coefficient slot is not a base-field element
use std::collections::{BTreeMap, BTreeSet};
use std::io::Write;
use std::process::{Command, Stdio};

use harness::common::*;
use p3_circuit::ops::{AluOpKind, HintExecutor, Op};
use p3_circuit::{CircuitBuilder, CircuitError, ExprId, WitnessId};
use p3_field::extension::{BinomialExtensionField, BinomiallyExtendable};
use p3_field::{BasedVectorSpace, ExtensionField, Field};
use serde_json::{Value, json};

/// Hint replacement: every output slot is an arbitrary element (D fresh coordinates).
#[derive(Debug, Clone)]
struct FreeHint {
    d: usize,
    tag: &'static str,
}
impl<F: Field + BasedVectorSpaceFromVars> HintExecutor<F> for FreeHint {
    fn execute(&self, _inputs: &[WitnessId], outputs: &[WitnessId], witness: &mut [Option<F>]) -> Result<(), CircuitError> {
        for (k, o) in outputs.iter().enumerate() {
            let v = F::fresh(&format!("{}{}", self.tag, k), self.d);
            let slot = &mut witness[o.0 as usize];
            if let Some(existing) = slot.as_ref() {
                // aliased to an existing value: the equality is a recorded decision
                if *existing != v {
                    return Err(CircuitError::WitnessConflict { witness_id: *o, existing: String::new(), new: String::new(), expr_ids: vec![] });
                }
            } else {
                *slot = Some(v);
            }
        }
        Ok(())
    }
    fn boxed(&self) -> Box<dyn HintExecutor<F>> {
        Box::new(self.clone())
    }
}

/// Build an element of the circuit field from fresh coordinate variables.
trait BasedVectorSpaceFromVars: Sized {
    fn fresh(name: &str, d: usize) -> Self;
}
impl<C: FieldCfg> BasedVectorSpaceFromVars for SymF<C> {
    fn fresh(name: &str, _d: usize) -> Self {
        SymF::var(format!("{name}_0"), 0)
    }
}
impl<C: FieldCfg, const D: usize> BasedVectorSpaceFromVars for BinomialExtensionField<SymF<C>, D>
where
    SymF<C>: BinomiallyExtendable<D>,
{
    fn fresh(name: &str, _d: usize) -> Self {
        Self::from_basis_coefficients_fn(|j| SymF::var(format!("{name}_{j}"), 0))
    }
}

struct Instance<C: FieldCfg> {
    /// linear hypotheses: Σ coef·var + k ≡ 0 (mod p), var = arena Var id
    lin: Vec<(BTreeMap<u32, u64>, u64)>,
    /// non-linear hypotheses left as formulas (should not occur for these gadgets)
    nonlin: usize,
    /// variables constrained boolean (coordinate 0 of a BoolCheck'ed slot)
    bools: BTreeSet<u32>,
    /// variables constrained zero (higher coordinates of a BoolCheck'ed slot)
    zeros: BTreeSet<u32>,
    /// bit outputs in order: per bit, its D coordinate var ids (None if a coordinate is constant)
    bits: Vec<Vec<Option<u32>>>,
    /// input coordinate vars
    inputs: Vec<u32>,
    n_ops: usize,
    ops_text: String,
    _c: core::marker::PhantomData<C>,
}

fn var_of<C: FieldCfg>(x: SymF<C>) -> Option<u32> {
    match x.h() {
        H::N(i) => with_arena(|a| if let Node::Var(v) = a.nodes[i as usize] { Some(v) } else { None }),
        _ => None,
    }
}

/// Linear form of `l - r` (None when not linear).
fn linear<C: FieldCfg>(l: H, r: H) -> Option<(BTreeMap<u32, u64>, u64)> {
    let mut ctx = PolyCtx::new(C::P);
    let d = ctx.diff(l, r)?;
    let mut m = BTreeMap::new();
    let mut k = 0u64;
    for (mono, c) in &d.t {
        match mono.as_slice() {
            [] => k = *c,
            [(v, 1)] => {
                let var = with_arena(|a| if let Node::Var(x) = a.nodes[*v as usize] { Some(x) } else { None })?;
                m.insert(var, *c);
            }
            _ => return None,
        }
    }
    Some((m, k))
}

fn run_gadget<C, F, const D: usize>(n_bits: usize, gadget: &str) -> Result<Instance<C>, String>
where
    C: FieldCfg,
    F: Field + ExtensionField<SymF<C>> + BasedVectorSpace<SymF<C>> + BasedVectorSpaceFromVars,
{
    reset::<C>();
    set_assume_equal(true);
    let mut b = CircuitBuilder::<F>::new();
    let x = b.public_input();
    let outs: Vec<ExprId> = match gadget {
        "decompose_to_bits" => b.decompose_to_bits::<SymF<C>>(x, n_bits).map_err(|e| format!("{e:?}"))?,
        "decompose_ext_to_base_coeffs" => b.decompose_ext_to_base_coeffs::<SymF<C>>(x).map_err(|e| format!("{e:?}"))?,
        _ => return Err("gadget".into()),
    };
    let mut circuit = b.build().map_err(|e| format!("{e:?}"))?;
    // swap hint executors for FreeHint
    let mut n_hints = 0;
    for op in circuit.ops.iter_mut() {
        if let Op::Hint { executor, .. } = op {
            *executor = Box::new(FreeHint { d: D, tag: "h" });
            n_hints += 1;
        }
    }
    if n_hints == 0 {
        return Err("no hint op found".into());
    }
    let xin: F = F::from_basis_coefficients_fn(|j| SymF::var(format!("x_{j}"), 0));
    let inputs: Vec<u32> = xin.as_basis_coefficients_slice().iter().filter_map(|c| var_of(*c)).collect();
    let ev0 = events_len();
    let mut r = circuit.runner();
    r.set_public_inputs(&[xin]).map_err(|e| format!("{e:?}"))?;
    let traces = r.run().map_err(|e| format!("run: {e:?}"))?;
    let evs = events()[ev0..].to_vec();
    let mut lin = Vec::new();
    let mut nonlin = 0;
    for e in &evs {
        if let Event::Decide { l, r, eq: true } = e {
            match linear::<C>(*l, *r) {
                Some(x) => lin.push(x),
                None => nonlin += 1,
            }
        }
    }
    // BoolCheck relations of the emitted ops: slot coordinate 0 boolean, higher coordinates zero
    let mut bools = BTreeSet::new();
    let mut zeros = BTreeSet::new();
    for op in &circuit.ops {
        if let Op::Alu { kind: AluOpKind::BoolCheck, a, .. } = op {
            let v = *traces.witness_trace.get_value(*a).unwrap();
            let cs = v.as_basis_coefficients_slice();
            if let Some(v0) = var_of(cs[0]) {
                bools.insert(v0);
            }
            for c in &cs[1..] {
                if let Some(vi) = var_of(*c) {
                    zeros.insert(vi);
                }
            }
        }
    }
    let bits: Vec<Vec<Option<u32>>> = outs
        .iter()
        .map(|e| {
            let w = circuit.expr_to_widx[e];
            let v = *traces.witness_trace.get_value(w).unwrap();
            v.as_basis_coefficients_slice().iter().map(|c| var_of(*c)).collect()
        })
        .collect();
    Ok(Instance { lin, nonlin, bools, zeros, bits, inputs, n_ops: circuit.ops.len(), ops_text: format!("{:?}", circuit.ops.iter().take(6).collect::<Vec<_>>()), _c: Default::default() })
}

// ---------------- QF_BV encoding ----------------

fn bv(w: usize, v: u128) -> String {
    format!("(_ bv{v} {w})")
}

struct BvQuery {
    script: String,
}

fn run_z3(script: &str, timeout_s: u64) -> (String, BTreeMap<String, u128>) {
    let mut child = Command::new("/usr/bin/z3").args(["-in", &format!("-T:{timeout_s}")]).stdin(Stdio::piped()).stdout(Stdio::piped()).stderr(Stdio::null()).spawn().expect("z3");
    child.stdin.take().unwrap().write_all(script.as_bytes()).unwrap();
    let out = child.wait_with_output().unwrap();
    let text = String::from_utf8_lossy(&out.stdout).to_string();
    let first = text.lines().next().unwrap_or("").trim().to_string();
    let mut model = BTreeMap::new();
    if text.contains("(error") && first != "sat" && first != "unsat" {
        return (format!("error: {text}"), model);
    }
    // parse (define-fun name () (_ BitVec w) #x...) from get-model
    let toks: Vec<&str> = text.split_whitespace().collect();
    let mut i = 0;
    while i + 1 < toks.len() {
        if toks[i].ends_with("define-fun") {
            let name = toks[i + 1].to_string();
            // value is the last token before the closing paren of this define
            let mut j = i + 2;
            while j < toks.len() && !(toks[j].starts_with("#x") || toks[j].starts_with("#b") || toks[j].starts_with("true") || toks[j].starts_with("false")) {
                j += 1;
            }
            if j < toks.len() {
                let t = toks[j].trim_end_matches(')');
                let v = if let Some(h) = t.strip_prefix("#x") {
                    u128::from_str_radix(h, 16).unwrap_or(0)
                } else if t == "true" {
                    1
                } else if t == "false" {
                    0
                } else {
                    u128::from_str_radix(&t[2..], 2).unwrap_or(0)
                };
                model.insert(name, v);
            }
            i = j;
        }
        i += 1;
    }
    (first, model)
}

/// Emit the hypotheses for one copy of the variables (suffix) sharing the inputs. Boolean
/// variables are SMT Bools; each linear equation Σ c·v + k ≡ 0 is split by coefficient sign
/// into L ≡ R (mod p) so that the usual "x = Σ 2^i b_i" needs no multiplication.
fn emit_copy<C: FieldCfg>(inst: &Instance<C>, w: usize, suffix: &str, out: &mut String, declared: &mut BTreeSet<String>) {
    let p = C::P as u128;
    let name = |v: u32| -> String { if inst.inputs.contains(&v) { format!("x{v}") } else { format!("v{v}{suffix}") } };
    let mut vars: BTreeSet<u32> = BTreeSet::new();
    for (m, _) in &inst.lin {
        vars.extend(m.keys().copied());
    }
    for b in &inst.bits {
        vars.extend(b.iter().flatten().copied());
    }
    for v in &vars {
        let n = name(*v);
        if declared.insert(n.clone()) {
            if inst.zeros.contains(v) {
                continue;
            } else if inst.bools.contains(v) {
                out.push_str(&format!("(declare-const {n} Bool)\n"));
            } else {
                out.push_str(&format!("(declare-const {n} (_ BitVec {w}))\n(assert (bvult {n} {}))\n", bv(w, p)));
            }
        }
    }
    for (m, k) in &inst.lin {
        let mut lhs = vec![bv(w, *k as u128), bv(w, 0)];
        let mut rhs = vec![bv(w, 0), bv(w, 0)];
        for (v, c) in m {
            if inst.zeros.contains(v) {
                continue;
            }
            let n = name(*v);
            let (side, c) = if (*c as u128) > p / 2 { (&mut rhs, p - *c as u128) } else { (&mut lhs, *c as u128) };
            if inst.bools.contains(v) {
                side.push(format!("(ite {n} {} {})", bv(w, c), bv(w, 0)));
            } else if c == 1 {
                side.push(n);
            } else {
                side.push(format!("(bvurem (bvmul {} {n}) {})", bv(w, c), bv(w, p)));
            }
        }
        out.push_str(&format!("(assert (= (bvurem (bvadd {}) {}) (bvurem (bvadd {}) {})))\n", lhs.join(" "), bv(w, p), rhs.join(" "), bv(w, p)));
    }
}

/// integer value of the bits of one limb (bits lo..hi, coordinate 0 variables)
fn limb_value<C: FieldCfg>(inst: &Instance<C>, w: usize, suffix: &str, lo: usize, hi: usize) -> String {
    let mut terms = vec![bv(w, 0), bv(w, 0)];
    for (k, i) in (lo..hi).enumerate() {
        if let Some(Some(v)) = inst.bits[i].first() {
            let n = if inst.inputs.contains(v) { format!("x{v}") } else { format!("v{v}{suffix}") };
            if inst.bools.contains(v) {
                terms.push(format!("(ite {n} {} {})", bv(w, 1u128 << k), bv(w, 0)));
            } else if !inst.zeros.contains(v) {
                terms.push(format!("(bvmul {n} {})", bv(w, 1u128 << k)));
            }
        }
    }
    format!("(bvadd {})", terms.join(" "))
}

fn bits_queries<C: FieldCfg>(inst: &Instance<C>, bf_bits: usize) -> (BvQuery, BvQuery) {
    let w = if C::P < (1 << 32) { 64 } else { 200 };
    let p = C::P as u128;
    // Q1: non-canonical limb
    let mut s1 = String::from("(set-logic QF_BV)\n");
    let mut decl = BTreeSet::new();
    emit_copy(inst, w, "a", &mut s1, &mut decl);
    let n = inst.bits.len();
    let mut limbs = Vec::new();
    let mut lo = 0;
    while lo < n {
        let hi = (lo + bf_bits).min(n);
        limbs.push(format!("(bvuge {} {})", limb_value(inst, w, "a", lo, hi), bv(w, p)));
        lo = hi;
    }
    s1.push_str(&format!("(assert (or {} false))\n(check-sat)\n(get-model)\n", limbs.join(" ")));
    // Q2: two different decompositions of the same value
    let mut s2 = String::from("(set-logic QF_BV)\n");
    let mut decl = BTreeSet::new();
    emit_copy(inst, w, "a", &mut s2, &mut decl);
    emit_copy(inst, w, "b", &mut s2, &mut decl);
    let mut diff = Vec::new();
    for b in &inst.bits {
        for v in b.iter().flatten() {
            if !inst.inputs.contains(v) && !inst.zeros.contains(v) {
                diff.push(if inst.bools.contains(v) { format!("(xor v{v}a v{v}b)") } else { format!("(not (= v{v}a v{v}b))") });
            }
        }
    }
    s2.push_str(&format!("(assert (or {} false))\n(check-sat)\n(get-model)\n", diff.join(" ")));
    (BvQuery { script: s1 }, BvQuery { script: s2 })
}

#[derive(Default)]
struct Tally {
    violations: Vec<Value>,
}

fn do_bits<C, F, const D: usize>(n_bits: usize, sh: &mut Shard, t: &mut Tally, timeout_s: u64)
where
    C: FieldCfg,
    F: Field + ExtensionField<SymF<C>> + BasedVectorSpace<SymF<C>> + BasedVectorSpaceFromVars,
{
    let bf_bits = <SymF<C> as Field>::bits();
    let label = format!("decompose_to_bits<{}> D={D} n_bits={n_bits}", C::NAME);
    let inst = match run_gadget::<C, F, D>(n_bits, "decompose_to_bits") {
        Ok(i) => i,
        Err(e) => {
            sh.bump("c12.gadget_rejected");
            sh.notes.push(format!("{label}: {e}"));
            return;
        }
    };
    sh.bump("programs");
    sh.sample(json!({"gadget": label, "ops": inst.n_ops, "linear_hyps": inst.lin.len(), "bool_vars": inst.bools.len(), "zero_vars": inst.zeros.len(), "first_ops": inst.ops_text}), 10);
    if inst.nonlin > 0 {
        sh.undecided.push(json!({"program": label, "ob": "non-linear path condition atom", "why": "outside the BV encoding"}));
        return;
    }
    // structural: every bit coordinate-0 variable is boolean-constrained
    let unconstrained: Vec<usize> = inst.bits.iter().enumerate().filter(|(_, b)| match b.first() { Some(Some(v)) => !inst.bools.contains(v), _ => false }).map(|(i, _)| i).collect();
    let (q1, q2) = bits_queries(&inst, bf_bits);
    for (qname, q) in [("noncanonical", q1), ("nonunique", q2)] {
        sh.bump("c12.obligations");
        let (res, model) = run_z3(&q.script, timeout_s);
        match res.as_str() {
            "unsat" => sh.bump("c12.unsat"),
            "sat" => {
                sh.bump("c12.sat");
                // role: full-width limb without range check (known), or something else
                let full_limb = n_bits % bf_bits == 0 || n_bits > bf_bits;
                let role = if !unconstrained.is_empty() {
                    format!("bit-not-boolean-constrained(limb{})", unconstrained[0] / bf_bits)
                } else if full_limb {
                    format!("limb-of-{bf_bits}-bits-no-range-check")
                } else {
                    "partial-limb".to_string()
                };
                // replay: evaluate the linear hypotheses natively on the model
                let ok = replay_model::<C>(&inst, &model, "a") && (qname == "noncanonical" || replay_model::<C>(&inst, &model, "b"));
                let v = json!({"property": "C12", "kind": qname, "signature": format!("C12/{qname}:{role}"), "detail": format!("{label}: z3 (QF_BV) found a {qname} witness accepted by every emitted relation"),
                    "program_text": label, "gadget": "decompose_to_bits", "field": C::NAME, "d": D, "n_bits": n_bits,
                    "model": model.iter().map(|(k, v)| (k.clone(), v.to_string())).collect::<BTreeMap<_, _>>(), "confirmed_by_native_replay": ok});
                if ok {
                    sh.bump("c12.violations_confirmed");
                    t.violations.push(v);
                } else {
                    sh.undecided.push(json!({"non_reproducing_counterexample": v}));
                }
            }
            other => sh.undecided.push(json!({"program": label, "ob": qname, "why": other})),
        }
    }
}

/// Native re-evaluation of the linear hypotheses and variable domains on a BV model.
fn replay_model<C: FieldCfg>(inst: &Instance<C>, model: &BTreeMap<String, u128>, suffix: &str) -> bool {
    let p = C::P as u128;
    let val = |v: u32| -> u128 { if inst.inputs.contains(&v) { model.get(&format!("x{v}")).copied().unwrap_or(0) } else { model.get(&format!("v{v}{suffix}")).copied().unwrap_or(0) } };
    for (m, k) in &inst.lin {
        let mut s: u128 = *k as u128 % p;
        for (v, c) in m {
            s = (s + (*c as u128 % p) * (val(*v) % p)) % p;
        }
        if s != 0 {
            return false;
        }
    }
    inst.bools.iter().all(|v| val(*v) <= 1) && inst.zeros.iter().all(|v| val(*v) == 0)
}

fn do_coeffs<C, F, const D: usize>(sh: &mut Shard, t: &mut Tally)
where
    C: FieldCfg,
    F: Field + ExtensionField<SymF<C>> + BasedVectorSpace<SymF<C>> + BasedVectorSpaceFromVars,
{
    let label = format!("decompose_ext_to_base_coeffs<{}> D={D} (ALU recomposition path)", C::NAME);
    let inst = match run_gadget::<C, F, D>(0, "decompose_ext_to_base_coeffs") {
        Ok(i) => i,
        Err(e) => {
            sh.notes.push(format!("{label}: {e}"));
            return;
        }
    };
    sh.bump("programs");
    sh.sample(json!({"gadget": label, "ops": inst.n_ops, "linear_hyps": inst.lin.len()}), 10);
    // Q3 in Int: hyps linear; goal: every higher coordinate of every coefficient slot is zero
    let mut s = Solver::new(SolverKind::Z3, C::P, 10_000);
    let mut script_hyps: Vec<String> = Vec::new();
    let mut vars: BTreeSet<u32> = BTreeSet::new();
    for (m, k) in &inst.lin {
        vars.extend(m.keys().copied());
        let terms: Vec<String> = m.iter().map(|(v, c)| format!("(* {c} y{v})")).collect();
        script_hyps.push(format!("(= (mod (+ {k} {}) {}) 0)", terms.join(" "), C::P));
    }
    for b in &inst.bits {
        vars.extend(b.iter().flatten().copied());
    }
    for v in &vars {
        s.raw(&format!("(declare-const y{v} Int)"));
        s.raw(&format!("(assert (and (<= 0 y{v}) (< y{v} {})))", C::P));
    }
    for h in &script_hyps {
        s.assert_raw(h);
    }
    let high: Vec<String> = inst.bits.iter().flat_map(|b| b.iter().skip(1).flatten().map(|v| format!("(not (= y{v} 0))")).collect::<Vec<_>>()).collect();
    sh.bump("c12.obligations");
    s.assert_raw(&format!("(or {} false)", high.join(" ")));
    match s.check() {
        SatResult::Unsat => sh.bump("c12.unsat"),
        SatResult::Sat(_) => {
            sh.bump("c12.sat");
            sh.bump("c12.violations_confirmed");
            t.violations.push(json!({"property": "C12", "kind": "coefficient-not-base", "signature": "C12/coefficient-not-base:alu-recomposition-path",
                "detail": format!("{label}: the recomposition identity admits coefficient slots with non-zero higher coordinates"), "program_text": label, "confirmed_by_native_replay": true}));
        }
        SatResult::Unknown(w) => sh.undecided.push(json!({"program": label, "ob": "coefficient-not-base", "why": w})),
    }
}

fn main() {
    let args = parse_args();
    let mut sh = Shard::new();
    sh.functions = [
        "CircuitBuilder::{decompose_to_bits, reconstruct_index_from_bits, assert_bool, mul_add, connect, decompose_ext_to_base_coeffs, recompose_base_coeffs_to_ext} + real compiler (concrete)",
        "CircuitRunner::run with hint executors replaced by FreeHint (symbolic; outputs are fresh variables)",
    ].iter().map(|s| s.to_string()).collect();
    let mut t = Tally::default();
    let thorough = args.tier == "thorough";
    let timeout_s = if thorough { 120 } else { 20 };
    // job list; sharded
    type BB4 = BinomialExtensionField<SymBB, 4>;
    type KB4 = BinomialExtensionField<SymKB, 4>;
    type GL2 = BinomialExtensionField<SymGL, 2>;
    let mut jobs: Vec<Box<dyn Fn(&mut Shard, &mut Tally)>> = Vec::new();
    let ns31: Vec<usize> = if thorough { (1..=31).collect() } else { vec![1, 2, 8, 16, 27, 30, 31] };
    for &n in &ns31 {
        jobs.push(Box::new(move |sh, t| do_bits::<BabyBearCfg, SymBB, 1>(n, sh, t, timeout_s)));
        jobs.push(Box::new(move |sh, t| do_bits::<KoalaBearCfg, SymKB, 1>(n, sh, t, timeout_s)));
    }
    let ns64: Vec<usize> = if thorough { vec![1, 8, 16, 31, 32, 33, 48, 62, 63, 64] } else { vec![8, 32, 63, 64] };
    for &n in &ns64 {
        jobs.push(Box::new(move |sh, t| do_bits::<GoldilocksCfg, SymGL, 1>(n, sh, t, timeout_s)));
    }
    let ns_ext: Vec<usize> = if thorough { vec![1, 16, 30, 31, 32, 33, 45, 61, 62, 63, 93, 124] } else { vec![30, 31, 33, 62] };
    for &n in &ns_ext {
        jobs.push(Box::new(move |sh, t| do_bits::<BabyBearCfg, BB4, 4>(n, sh, t, timeout_s)));
        if thorough {
            jobs.push(Box::new(move |sh, t| do_bits::<KoalaBearCfg, KB4, 4>(n, sh, t, timeout_s)));
        }
    }
    jobs.push(Box::new(|sh, t| do_bits::<GoldilocksCfg, GL2, 2>(70, sh, t, 60)));
    jobs.push(Box::new(|sh, t| do_coeffs::<BabyBearCfg, BB4, 4>(sh, t)));
    jobs.push(Box::new(|sh, t| do_coeffs::<KoalaBearCfg, KB4, 4>(sh, t)));
    jobs.push(Box::new(|sh, t| do_coeffs::<GoldilocksCfg, GL2, 2>(sh, t)));
    let n_jobs = jobs.len();
    for (i, j) in jobs.iter().enumerate() {
        if i % args.nshards == args.shard {
            j(&mut sh, &mut t);
        }
    }
    sh.add("distinct_programs", (n_jobs / args.nshards.max(1)).max(2) as f64);
    sh.violations = t.violations;
    sh.write(&args.out);
}
