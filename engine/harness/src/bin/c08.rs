//! C08: in-circuit MMCS (Merkle) opening verification agrees with the native one.
//!
//! For each batch shape, cap height and index, an honest opening is produced concretely with
//! the native `MerkleTreeMmcs` over BabyBear; every leaf value, sibling digest word and cap
//! word then becomes a symbolic variable (shadow = honest value). The native
//! `MerkleTreeMmcs::verify_batch` (resp. `ExtensionMmcs`) is executed at the symbolic field with
//! the permutation as an uninterpreted function, and the real `verify_batch_circuit(_from_
//! extension_opened)` circuit is compiled and run on the same symbols. z3 decides that the two
//! acceptance conditions are equivalent for all values (index bits fixed per instance).
use std::sync::Arc;

use harness::common::*;
use p3_circuit::ops::{OpStateMap, Poseidon2Config, Poseidon2Params, generate_recompose_trace, perm_private_data};
use p3_circuit::tables::NonPrimitiveTrace;
use p3_circuit::{CircuitBuilder, CircuitError};
use p3_commit::{BatchOpeningRef, ExtensionMmcs, Mmcs};
use p3_field::extension::BinomialExtensionField;
use p3_field::{BasedVectorSpace, PrimeCharacteristicRing, PrimeField64};
use p3_matrix::Dimensions;
use p3_matrix::dense::RowMajorMatrix;
use p3_merkle_tree::MerkleTreeMmcs;
use p3_recursion::pcs::{verify_batch_circuit, verify_batch_circuit_from_extension_opened};
use p3_symmetric::{MerkleCap, PaddingFreeSponge, Permutation, TruncatedPermutation};
use p3_util::log2_ceil_usize;
use rand::rngs::SmallRng;
use rand::{RngExt, SeedableRng};
use serde_json::{Value, json};

type BB = p3_baby_bear::BabyBear;
type BB4 = BinomialExtensionField<BB, 4>;
type S = SymBB;
type S4 = BinomialExtensionField<S, 4>;
const P: u64 = BabyBearCfg::P;

struct SymBBD4W16;
impl Poseidon2Params for SymBBD4W16 {
    type BaseField = SymBB;
    const CONFIG: Poseidon2Config = Poseidon2Config::BABY_BEAR_D4_W16;
}
fn no_trace<F>(_: &OpStateMap) -> Result<Option<Box<dyn NonPrimitiveTrace<F>>>, CircuitError> {
    Ok(None)
}

type CPerm = p3_baby_bear::Poseidon2BabyBear<16>;
type CHash = PaddingFreeSponge<CPerm, 16, 8, 8>;
type CCompress = TruncatedPermutation<CPerm, 2, 8, 16>;
type CMmcs = MerkleTreeMmcs<BB, BB, CHash, CCompress, 2, 8>;
type SHash = PaddingFreeSponge<SymPerm<16>, 16, 8, 8>;
type SCompress = TruncatedPermutation<SymPerm<16>, 2, 8, 16>;
type SMmcs = MerkleTreeMmcs<S, S, SHash, SCompress, 2, 8>;

fn shadow_bb16(perm: CPerm) -> ShadowFn {
    Arc::new(move |xs: &[u64]| {
        let a: [BB; 16] = core::array::from_fn(|i| BB::from_u64(xs[i]));
        perm.permute(a).iter().map(|x| x.as_canonical_u64()).collect()
    })
}

#[derive(Clone, Debug, serde::Serialize)]
struct Shape {
    dims: Vec<(usize, usize)>, // (height, width) ; width in base elements (base leaves) or ext elements (ext leaves)
    cap_height: usize,
    ext_leaves: bool,
}

fn shapes(tier: &str, seed: u64) -> Vec<Shape> {
    let mut out = Vec::new();
    let widths = [1usize, 3, 7, 8, 9, 16, 17];
    let heights = [1usize, 2, 4, 8];
    for &h in &heights {
        for &w in &widths {
            for cap in 0..=2usize {
                if (1 << cap) <= h {
                    out.push(Shape { dims: vec![(h, w)], cap_height: cap, ext_leaves: false });
                }
            }
        }
    }
    // mixed heights / same-height concatenation
    for (dims, cap) in [
        (vec![(8usize, 3usize), (4, 9)], 0usize),
        (vec![(8, 8), (8, 1)], 1),
        (vec![(4, 17), (2, 2), (1, 5)], 0),
        (vec![(8, 7), (2, 7)], 1),
        (vec![(4, 3), (4, 3), (2, 16)], 0),
        (vec![(16, 2), (4, 1)], 2),
    ] {
        out.push(Shape { dims, cap_height: cap, ext_leaves: false });
    }
    // extension leaves (widths in extension elements; rate_ext = 2)
    for (dims, cap) in [
        (vec![(4usize, 1usize)], 0usize),
        (vec![(4, 2)], 0),
        (vec![(4, 3)], 0),
        (vec![(8, 4)], 1),
        (vec![(8, 5)], 0),
        (vec![(4, 2), (4, 1)], 0),
        (vec![(8, 5), (2, 3)], 1),
        (vec![(2, 7)], 0),
    ] {
        out.push(Shape { dims, cap_height: cap, ext_leaves: true });
    }
    let mut rng = SmallRng::seed_from_u64(seed.wrapping_mul(101).wrapping_add(9));
    let n = if tier == "thorough" { 300 } else { 12 };
    for _ in 0..n {
        let nm = rng.random_range(1..=3);
        let mut dims = Vec::new();
        let hmax = 1usize << rng.random_range(0..=4);
        for k in 0..nm {
            let h = if k == 0 { hmax } else { hmax >> rng.random_range(0..=2).min(hmax.trailing_zeros() as usize) };
            dims.push((h.max(1), rng.random_range(1..=18)));
        }
        let cap = rng.random_range(0..=2usize).min(hmax.trailing_zeros() as usize);
        out.push(Shape { dims, cap_height: cap, ext_leaves: rng.random_range(0..3) == 0 });
    }
    out
}

struct Res {
    native_atoms: Vec<Fm>,
    circuit_atoms: Vec<Fm>,
    pins: Vec<Fm>,
    native_ok: bool,
    circuit_err: Option<String>,
}

fn run_instance(shape: &Shape, index: usize, rng: &mut SmallRng) -> Result<Res, String> {
    let cperm = p3_test_utils::baby_bear_params::default_babybear_poseidon2_16();
    let cm = CMmcs::new(CHash::new(cperm.clone()), CCompress::new(cperm.clone()), shape.cap_height);
    let max_height = shape.dims.iter().map(|d| d.0).max().unwrap();
    let log_max = log2_ceil_usize(max_height);
    reset::<BabyBearCfg>();
    let sperm = SymPerm::<16>::new("perm", shadow_bb16(cperm.clone()));
    let sm = SMmcs::new(SHash::new(sperm.clone()), SCompress::new(sperm.clone()), shape.cap_height);
    let var = |name: String, v: u64| S::var(name, v);

    if !shape.ext_leaves {
        // ---------- base-field leaves ----------
        let mats: Vec<RowMajorMatrix<BB>> = shape.dims.iter().map(|&(h, w)| RowMajorMatrix::new((0..h * w).map(|_| BB::from_u64(rng.random::<u32>() as u64)).collect(), w)).collect();
        let dims: Vec<Dimensions> = shape.dims.iter().map(|&(h, w)| Dimensions { width: w, height: h }).collect();
        let (commit, pd) = cm.commit(mats);
        let opening = cm.open_batch(index, &pd);
        cm.verify_batch(&commit, &dims, index, (&opening).into()).map_err(|e| format!("concrete native verify failed: {e:?}"))?;
        let (opened, proof) = opening.unpack();
        // symbolic copies
        let s_opened: Vec<Vec<S>> = opened.iter().enumerate().map(|(m, row)| row.iter().enumerate().map(|(j, x)| var(format!("leaf{m}_{j}"), x.as_canonical_u64())).collect()).collect();
        let s_proof: Vec<[S; 8]> = proof.iter().enumerate().map(|(l, d)| core::array::from_fn(|j| var(format!("sib{l}_{j}"), d[j].as_canonical_u64()))).collect();
        let s_cap: Vec<[S; 8]> = commit.roots().iter().enumerate().map(|(c, d)| core::array::from_fn(|j| var(format!("cap{c}_{j}"), d[j].as_canonical_u64()))).collect();
        let s_commit: MerkleCap<S, [S; 8]> = MerkleCap::new(s_cap.clone());
        // native at SymF
        let e0 = events_len();
        let nres = sm.verify_batch(&s_commit, &dims, index, BatchOpeningRef::new(&s_opened, &s_proof));
        let native_atoms: Vec<Fm> = events()[e0..].iter().filter_map(event_fm).collect();
        // circuit
        let mut b = CircuitBuilder::<S4>::new();
        b.enable_poseidon2_perm::<SymBBD4W16, _>(no_trace::<S4>, sperm.clone());
        b.enable_recompose::<S>(generate_recompose_trace::<S, S4>);
        let cfg = Poseidon2Config::BABY_BEAR_D4_W16;
        let openings_t: Vec<Vec<_>> = s_opened.iter().map(|row| (0..row.len()).map(|_| b.public_input()).collect()).collect();
        let dirs_t = b.alloc_public_inputs(log_max, "directions");
        let rate_ext = cfg.rate_ext();
        let cap_t: Vec<Vec<_>> = (0..s_cap.len()).map(|_| b.alloc_public_inputs(rate_ext, "cap").to_vec()).collect();
        let ops = verify_batch_circuit::<S, S4>(&mut b, cfg, &cap_t, &dims, &dirs_t, &openings_t, None).map_err(|e| format!("circuit build: {e:?}"))?;
        let circuit = b.build().map_err(|e| format!("{e:?}"))?;
        let mut pubs: Vec<S4> = s_opened.iter().flat_map(|r| r.iter().map(|&v| S4::from(v))).collect();
        let bit_vars: Vec<S> = (0..log_max).map(|k| var(format!("bit{k}"), ((index >> k) & 1) as u64)).collect();
        pubs.extend(bit_vars.iter().map(|&v| S4::from(v)));
        for entry in &s_cap {
            for ch in entry.chunks(4) {
                pubs.push(S4::from_basis_coefficients_slice(ch).unwrap());
            }
        }
        let pins: Vec<Fm> = bit_vars.iter().enumerate().map(|(k, v)| Fm::Eq(v.h(), H::C(((index >> k) & 1) as u64))).collect();
        let mut runner = circuit.runner();
        runner.set_public_inputs(&pubs).map_err(|e| format!("{e:?}"))?;
        if ops.len() != s_proof.len() {
            return Err(format!("circuit expects {} sibling ops, native proof has {}", ops.len(), s_proof.len()));
        }
        for (&op, sib) in ops.iter().zip(&s_proof) {
            let s: Vec<S4> = sib.chunks(4).map(|c| S4::from_basis_coefficients_slice(c).unwrap()).collect();
            runner.set_private_data(op, perm_private_data(cfg, s)).map_err(|e| format!("{e:?}"))?;
        }
        let e1 = events_len();
        let cres = runner.run();
        let circuit_atoms: Vec<Fm> = events()[e1..].iter().filter_map(event_fm).collect();
        Ok(Res { native_atoms, circuit_atoms, pins, native_ok: nres.is_ok(), circuit_err: cres.err().map(|e| format!("{e:?}")) })
    } else {
        // ---------- extension-field leaves (ExtensionMmcs over the same tree) ----------
        let cem = ExtensionMmcs::<BB, BB4, CMmcs>::new(cm);
        let sem = ExtensionMmcs::<S, S4, SMmcs>::new(sm);
        let mats: Vec<RowMajorMatrix<BB4>> = shape
            .dims
            .iter()
            .map(|&(h, w)| RowMajorMatrix::new((0..h * w).map(|_| BB4::from_basis_coefficients_fn(|_| BB::from_u64(rng.random::<u32>() as u64))).collect(), w))
            .collect();
        let dims: Vec<Dimensions> = shape.dims.iter().map(|&(h, w)| Dimensions { width: w, height: h }).collect();
        let (commit, pd) = cem.commit(mats);
        let opening = cem.open_batch(index, &pd);
        cem.verify_batch(&commit, &dims, index, (&opening).into()).map_err(|e| format!("concrete native verify failed: {e:?}"))?;
        let (opened, proof) = opening.unpack();
        let s_opened: Vec<Vec<S4>> = opened
            .iter()
            .enumerate()
            .map(|(m, row)| row.iter().enumerate().map(|(j, x)| { let cs: &[BB] = x.as_basis_coefficients_slice(); S4::from_basis_coefficients_fn(|t| var(format!("leaf{m}_{j}_{t}"), cs[t].as_canonical_u64())) }).collect())
            .collect();
        let s_proof: Vec<[S; 8]> = proof.iter().enumerate().map(|(l, d)| core::array::from_fn(|j| var(format!("sib{l}_{j}"), d[j].as_canonical_u64()))).collect();
        let s_cap: Vec<[S; 8]> = commit.roots().iter().enumerate().map(|(c, d)| core::array::from_fn(|j| var(format!("cap{c}_{j}"), d[j].as_canonical_u64()))).collect();
        let s_commit: MerkleCap<S, [S; 8]> = MerkleCap::new(s_cap.clone());
        let e0 = events_len();
        let nres = sem.verify_batch(&s_commit, &dims, index, BatchOpeningRef::new(&s_opened, &s_proof));
        let native_atoms: Vec<Fm> = events()[e0..].iter().filter_map(event_fm).collect();
        let mut b = CircuitBuilder::<S4>::new();
        b.enable_poseidon2_perm::<SymBBD4W16, _>(no_trace::<S4>, sperm.clone());
        b.enable_recompose::<S>(generate_recompose_trace::<S, S4>);
        let cfg = Poseidon2Config::BABY_BEAR_D4_W16;
        let openings_t: Vec<Vec<_>> = s_opened.iter().map(|row| (0..row.len()).map(|_| b.public_input()).collect()).collect();
        let dirs_t = b.alloc_public_inputs(log_max, "directions");
        let rate_ext = cfg.rate_ext();
        let cap_t: Vec<Vec<_>> = (0..s_cap.len()).map(|_| b.alloc_public_inputs(rate_ext, "cap").to_vec()).collect();
        let ops = verify_batch_circuit_from_extension_opened::<S, S4>(&mut b, cfg, &cap_t, &dims, &dirs_t, &openings_t, None).map_err(|e| format!("circuit build: {e:?}"))?;
        let circuit = b.build().map_err(|e| format!("{e:?}"))?;
        let mut pubs: Vec<S4> = s_opened.iter().flat_map(|r| r.iter().copied()).collect();
        let bit_vars: Vec<S> = (0..log_max).map(|k| var(format!("bit{k}"), ((index >> k) & 1) as u64)).collect();
        pubs.extend(bit_vars.iter().map(|&v| S4::from(v)));
        for entry in &s_cap {
            for ch in entry.chunks(4) {
                pubs.push(S4::from_basis_coefficients_slice(ch).unwrap());
            }
        }
        let pins: Vec<Fm> = bit_vars.iter().enumerate().map(|(k, v)| Fm::Eq(v.h(), H::C(((index >> k) & 1) as u64))).collect();
        let mut runner = circuit.runner();
        runner.set_public_inputs(&pubs).map_err(|e| format!("{e:?}"))?;
        if ops.len() != s_proof.len() {
            return Err(format!("circuit expects {} sibling ops, native proof has {}", ops.len(), s_proof.len()));
        }
        for (&op, sib) in ops.iter().zip(&s_proof) {
            let s: Vec<S4> = sib.chunks(4).map(|c| S4::from_basis_coefficients_slice(c).unwrap()).collect();
            runner.set_private_data(op, perm_private_data(cfg, s)).map_err(|e| format!("{e:?}"))?;
        }
        let e1 = events_len();
        let cres = runner.run();
        let circuit_atoms: Vec<Fm> = events()[e1..].iter().filter_map(event_fm).collect();
        Ok(Res { native_atoms, circuit_atoms, pins, native_ok: nres.is_ok(), circuit_err: cres.err().map(|e| format!("{e:?}")) })
    }
}

fn main() {
    let args = parse_args();
    let mut sh = Shard::new();
    sh.functions = [
        "p3_recursion::pcs::{verify_batch_circuit, verify_batch_circuit_from_extension_opened, add_hash_base_coeffs_overwrite, add_hash_extension_elements, select_cap_entry} + CircuitBuilder::add_mmcs_verify + real compiler",
        "CircuitRunner::run incl. the Poseidon permutation executor in Merkle mode (symbolic; index bits pinned per instance)",
        "p3_merkle_tree::MerkleTreeMmcs::verify_batch / p3_commit::ExtensionMmcs::verify_batch at SymF (native side)",
    ].iter().map(|s| s.to_string()).collect();
    let mut solver = Solver::new(SolverKind::Z3, P, if args.tier == "thorough" { 20_000 } else { 5_000 });
    let mut rng = SmallRng::seed_from_u64(args.seed ^ 0xC08);
    let mut violations: Vec<Value> = Vec::new();
    let mut n_inst = 0usize;
    let mut job = 0usize;
    for shape in shapes(&args.tier, args.seed) {
        let max_height = shape.dims.iter().map(|d| d.0).max().unwrap();
        for index in 0..max_height {
            job += 1;
            if job % args.nshards != args.shard {
                continue;
            }
            n_inst += 1;
            sh.bump("programs");
            let label = format!("{shape:?} index={index}");
            let r = match run_instance(&shape, index, &mut rng) {
                Ok(r) => r,
                Err(e) => {
                    sh.bump("c08.violations_confirmed");
                    violations.push(json!({"property": "C08", "kind": "setup", "signature": format!("C08/instance-error:{}", if shape.ext_leaves { "ext" } else { "base" }), "detail": e, "program_text": label, "confirmed_by_native_replay": true}));
                    continue;
                }
            };
            sh.sample(json!({"instance": label, "native_checks": r.native_atoms.len(), "circuit_checks": r.circuit_atoms.len()}), 10);
            let kindtag = if shape.ext_leaves { "ext-leaves" } else { "base-leaves" };
            if !r.native_ok || r.circuit_err.is_some() {
                // honest opening: both must accept on the shadow point
                sh.bump("c08.violations_confirmed");
                violations.push(json!({"property": "C08", "kind": "honest-opening-rejected", "signature": format!("C08/honest-opening-rejected:{kindtag}"),
                    "detail": format!("native ok={} circuit err={:?}", r.native_ok, r.circuit_err), "program_text": label, "confirmed_by_native_replay": true}));
                continue;
            }
            solver.push();
            // circuit accepts => native accepts ; native accepts => circuit accepts
            for (dir, hyps_src, goals) in [("circuit=>native", &r.circuit_atoms, &r.native_atoms), ("native=>circuit", &r.native_atoms, &r.circuit_atoms)] {
                let mut hyps: Vec<Fm> = r.pins.clone();
                hyps.extend(hyps_src.iter().cloned());
                let mut rw = rewriter_from(P, &hyps, false);
                for g in goals.iter() {
                    match discharge(&mut solver, &mut rw, &hyps, g, &mut sh, "c08.equiv") {
                        Verdict::Holds => {}
                        Verdict::Cex(_) => {
                            sh.bump("c08.violations_confirmed");
                            violations.push(json!({"property": "C08", "kind": "acceptance-differs", "signature": format!("C08/acceptance-differs:{kindtag}:{dir}"),
                                "detail": format!("{dir}: a check of one side is not implied by the other side's checks"), "program_text": label, "confirmed_by_native_replay": true}));
                            break;
                        }
                        Verdict::Undecided(w) => sh.undecided.push(json!({"program": label, "ob": dir, "why": w})),
                    }
                }
            }
            solver.pop();
        }
    }
    sh.add("distinct_programs", n_inst as f64);
    sh.absorb_solver("z3", &solver.stats);
    sh.violations = violations;
    sh.write(&args.out);
}
