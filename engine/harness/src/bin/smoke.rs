use harness::common::*;
use p3_circuit::CircuitBuilder;
use p3_field::PrimeCharacteristicRing;

type F = SymBB;
fn main() {
    reset::<BabyBearCfg>();
    let mut b = CircuitBuilder::<F>::new();
    let x = b.public_input();
    let y = b.public_input();
    let z = b.public_input();
    let c = b.define_const(F::from_u64(37));
    let t = b.mul(c, x);
    let u = b.sub(t, y);
    let v = b.mul(x, z);
    b.connect(u, v);
    let d = b.div(u, z);
    let circuit = b.build().unwrap();
    println!("ops: {:?}", circuit.ops);
    let mut r = circuit.runner();
    // shadows satisfying 37x - y = x z : x=1, z=5, y=32
    let xs = [F::var("x", 1), F::var("y", 32), F::var("z", 5)];
    r.set_public_inputs(&xs).unwrap();
    let tr = r.run().unwrap();
    let w = circuit.expr_to_widx[&d];
    println!("d = {:?}", tr.witness_trace.get_value(w));
    let evs = events();
    println!("events: {evs:?}");
    let mut s = Solver::new(SolverKind::Z3, BabyBearCfg::P, 10_000);
    s.set_transcript(std::path::Path::new("/tmp/smoke.smt2"));
    // obligation: d * z == u under PC
    let dv = *tr.witness_trace.get_value(w).unwrap();
    let uv = *tr.witness_trace.get_value(circuit.expr_to_widx[&u]).unwrap();
    let hyps: Vec<Fm> = evs.iter().filter_map(event_fm).collect();
    let goal = Fm::Eq((dv * xs[2]).h(), uv.h());
    println!("implies: {:?}", implies(&mut s, &hyps, &goal));
    let bad = Fm::Eq((dv * xs[1]).h(), uv.h());
    println!("bad implies: {:?}", implies(&mut s, &hyps, &bad));
    println!("{:?}", s.stats);
}
