//! C19 (runner fails safely): SymF part. For every enumerated program:
//!  (i)   run with public inputs withheld            -> must be Err
//!  (ii)  run with private inputs withheld           -> must be Err
//!  (iii) too short / too long input vectors         -> must be Err
//!  (iv)  inputs supplied twice with independent symbolic vectors: on the path where the
//!        run succeeds, the solver must prove the two vectors equal (no silent overwrite)
//!  (v)   the outcome list (Ok / error kind per scenario) is printed so that the driver can
//!        compare the dev-profile and release-profile builds of this same binary.
//! The Kani harnesses (engine/kani_c19) cover `ExecutionContext::{get,set}_witness`.
use harness::common::*;
use harness::prog::*;
use p3_baby_bear::BabyBear;
use p3_field::PrimeCharacteristicRing;
use rand::SeedableRng;
use rand::rngs::SmallRng;
use serde_json::json;

type F = SymBB;
type B = BabyBear;
const P: u64 = BabyBearCfg::P;

fn err_kind<T>(r: &Result<T, p3_circuit::CircuitError>) -> String {
    match r {
        Ok(_) => "Ok".into(),
        Err(e) => {
            let s = format!("{e:?}");
            s.split(|c: char| !c.is_alphanumeric()).next().unwrap_or("").to_string()
        }
    }
}

fn programs(tier: &str, seed: u64) -> Vec<Program> {
    let mut out = Vec::new();
    for wp in [false, true] {
        enumerate_small(1, &["add", "sub", "mul", "div", "muladd", "select"], wp, &mut |p| {
            out.push(p);
            true
        });
    }
    let n = if tier == "thorough" { 4000 } else { 600 };
    let mut rng = SmallRng::seed_from_u64(seed.wrapping_mul(31).wrapping_add(19));
    for i in 0..n {
        out.push(if i % 3 == 0 { gen_fusion_dag(&mut rng) } else { gen_random(&mut rng, 8, true) });
    }
    out
}

fn replay(path: &str) -> i32 {
    let v: serde_json::Value = serde_json::from_str(&std::fs::read_to_string(path).expect("read")).expect("json");
    if v.get("kani").is_some() {
        println!("Kani finding: re-run `cd /verif/engine/kani_c19 && cargo kani -Z stubbing` (see {})", v["kani_log"]);
        return 1;
    }
    let prog: Program = serde_json::from_value(v["program"].clone()).expect("program");
    println!("program: {}", prog.text());
    let built = build_program::<B>(&prog).expect("build");
    let parse = |k: &str| -> Vec<B> {
        v[k].as_array().map(|a| a.iter().map(|x| B::from_u64(x.as_str().unwrap_or("0").parse::<u64>().unwrap_or(0))).collect()).unwrap_or_default()
    };
    let (a, b) = (parse("first"), parse("second"));
    let mut r = built.circuit.runner();
    let kind = v["kind"].as_str().unwrap_or("");
    let res = match kind {
        "duplicated_inputs_overwrite" => {
            let privs: Vec<B> = (0..prog.n_private()).map(|i| B::from_u64(11 + i as u64)).collect();
            r.set_public_inputs(&a).and_then(|_| r.set_public_inputs(&b)).and_then(|_| r.set_private_inputs(&privs)).and_then(|_| r.run()).map(|_| ())
        }
        "withheld_public" => {
            let privs: Vec<B> = (0..prog.n_private()).map(|i| B::from_u64(11 + i as u64)).collect();
            r.set_private_inputs(&privs).and_then(|_| r.run()).map(|_| ())
        }
        "withheld_private" => {
            let pubs: Vec<B> = (0..prog.n_public()).map(|i| B::from_u64(3 + i as u64)).collect();
            r.set_public_inputs(&pubs).and_then(|_| r.run()).map(|_| ())
        }
        _ => Ok(()),
    };
    println!("scenario {kind}: {}", err_kind(&res));
    if res.is_ok() { 1 } else { 0 }
}

fn main() {
    let args = parse_args();
    if let Some(p) = &args.replay {
        std::process::exit(replay(p));
    }
    let mut sh = Shard::new();
    sh.functions = vec![
        "p3_circuit::tables::CircuitRunner::{new,set_public_inputs,set_private_inputs,run,execute_all,set_witness} (concrete for withheld/length scenarios, symbolic on SymF for duplicated inputs)".into(),
    ];
    let progs = programs(&args.tier, args.seed);
    let mut solver = Solver::new(SolverKind::Z3, P, 4000);
    let mut outcomes: Vec<String> = Vec::new();
    let mut distinct = std::collections::HashSet::new();
    for (idx, prog) in progs.iter().enumerate() {
        if idx % args.nshards != args.shard || !distinct.insert(prog.clone()) {
            continue;
        }
        if sh.violations.len() >= 10 {
            sh.bump("programs_skipped_after_10_violations");
            continue;
        }
        let Ok(built) = build_program::<B>(prog) else {
            // recorded so that the dev/release comparison can tell "not built in this profile"
            // (e.g. a debug assertion of the builder) from a differing runner outcome
            outcomes.push(format!("{idx}:build:rejected"));
            sh.bump("programs_rejected_by_builder");
            continue;
        };
        sh.bump("programs");
        let npub = prog.n_public();
        let npriv = prog.n_private();
        let pubs: Vec<B> = (0..npub).map(|i| B::from_u64(3 + i as u64)).collect();
        let privs: Vec<B> = (0..npriv).map(|i| B::from_u64(11 + i as u64)).collect();
        let mut rec = |name: &str, r: String, must_err: bool, sh: &mut Shard| {
            outcomes.push(format!("{idx}:{name}:{r}"));
            sh.bump("c19.scenarios");
            if must_err && r == "Ok" {
                sh.bump("c19.violations_confirmed");
                sh.violations.push(json!({
                    "property": "C19", "kind": name, "signature": format!("C19/{name}"),
                    "detail": format!("scenario {name} returned Ok"),
                    "program": prog, "program_text": prog.text(), "confirmed_by_native_replay": true,
                }));
            }
        };
        // (i) withheld publics
        if npub > 0 {
            let mut r = built.circuit.runner();
            let res = r.set_private_inputs(&privs).and_then(|_| r.run());
            rec("withheld_public", err_kind(&res), true, &mut sh);
        }
        // (ii) withheld privates
        if npriv > 0 {
            let mut r = built.circuit.runner();
            let res = r.set_public_inputs(&pubs).and_then(|_| r.run());
            rec("withheld_private", err_kind(&res), true, &mut sh);
        }
        // (iii) wrong lengths
        {
            let mut r = built.circuit.runner();
            let mut long = pubs.clone();
            long.push(B::ONE);
            rec("public_too_long", err_kind(&r.set_public_inputs(&long)), true, &mut sh);
            if npub > 0 {
                let mut r = built.circuit.runner();
                rec("public_too_short", err_kind(&r.set_public_inputs(&pubs[..npub - 1])), true, &mut sh);
            }
            let mut r = built.circuit.runner();
            let mut longp = privs.clone();
            longp.push(B::ONE);
            rec("private_too_long", err_kind(&r.set_private_inputs(&longp)), true, &mut sh);
        }
        // (iv) duplicated inputs, symbolic
        reset::<BabyBearCfg>();
        set_assume_equal(true);
        let Ok(sb) = build_program::<F>(prog) else { continue };
        let v1: Vec<F> = (0..npub).map(|i| F::var(format!("a{i}"), 5 + i as u64)).collect();
        let v2: Vec<F> = (0..npub).map(|i| F::var(format!("b{i}"), 50 + i as u64)).collect();
        let q1: Vec<F> = (0..npriv).map(|i| F::var(format!("c{i}"), 500 + i as u64)).collect();
        let q2: Vec<F> = (0..npriv).map(|i| F::var(format!("d{i}"), 5000 + i as u64)).collect();
        let ev0 = events_len();
        let mut r = sb.circuit.runner();
        let res = r
            .set_public_inputs(&v1)
            .and_then(|_| r.set_public_inputs(&v2))
            .and_then(|_| r.set_private_inputs(&q1))
            .and_then(|_| r.set_private_inputs(&q2))
            .and_then(|_| r.run());
        outcomes.push(format!("{idx}:dup_symbolic:{}", err_kind(&res)));
        if res.is_ok() {
            let pc: Vec<Fm> = events()[ev0..].iter().filter_map(event_fm).collect();
            let mut rw = rewriter_from(P, &pc, false);
            solver.push();
            for (x, y) in v1.iter().zip(&v2).chain(q1.iter().zip(&q2)) {
                let goal = Fm::Eq(x.h(), y.h());
                match discharge(&mut solver, &mut rw, &pc, &goal, &mut sh, "c19.dup") {
                    Verdict::Holds => {}
                    Verdict::Cex(m) => {
                        // replay natively: two different vectors, run must not succeed
                        let val = |f: &F| B::from_u64(match f.h() { H::N(_) => m.get(&var_index(f)).copied().unwrap_or(f.shadow()), H::C(c) => c });
                        let a: Vec<B> = v1.iter().map(val).collect();
                        let b: Vec<B> = v2.iter().map(val).collect();
                        let c: Vec<B> = q1.iter().map(val).collect();
                        let d: Vec<B> = q2.iter().map(val).collect();
                        let mut nr = built.circuit.runner();
                        let nres = nr
                            .set_public_inputs(&a)
                            .and_then(|_| nr.set_public_inputs(&b))
                            .and_then(|_| nr.set_private_inputs(&c))
                            .and_then(|_| nr.set_private_inputs(&d))
                            .and_then(|_| nr.run());
                        let differ = a != b || c != d;
                        let confirmed = differ && nres.is_ok();
                        let v = json!({
                            "property": "C19", "kind": "duplicated_inputs_overwrite", "signature": "C19/duplicated_inputs_overwrite",
                            "detail": "run succeeds after the inputs were supplied twice with different values",
                            "program": prog, "program_text": prog.text(),
                            "first": a.iter().map(|x| format!("{x}")).collect::<Vec<_>>(), "second": b.iter().map(|x| format!("{x}")).collect::<Vec<_>>(),
                            "confirmed_by_native_replay": confirmed,
                        });
                        if confirmed {
                            sh.bump("c19.violations_confirmed");
                            sh.violations.push(v);
                        } else {
                            sh.undecided.push(json!({"non_reproducing_counterexample": v}));
                        }
                        break;
                    }
                    Verdict::Undecided(w) => sh.undecided.push(json!({"program": prog.text(), "ob": "c19.dup", "why": w})),
                }
            }
            solver.pop();
        }
        sh.sample(json!({"program": prog.text(), "outcomes": outcomes.iter().rev().take(6).collect::<Vec<_>>()}), 6);
    }
    sh.add("distinct_programs", distinct.len() as f64);
    sh.absorb_solver("z3", &solver.stats);
    // outcome digest for the dev/release comparison
    let digest = outcomes.join("\n");
    std::fs::write(format!("{}.outcomes", args.out), digest).unwrap();
    sh.write(&args.out);
}

fn var_index(f: &F) -> u32 {
    match f.h() {
        H::N(i) => with_arena(|a| match a.nodes[i as usize] {
            Node::Var(v) => v,
            _ => u32::MAX,
        }),
        _ => u32::MAX,
    }
}
