//! Replay of the C04/C09 finding "BoolCheck.a off the bus": assert_bool on a private input whose
//! first ALU use is the BoolCheck row. The forged trace keeps out = 5 (non-boolean, on the bus)
//! and sets the unconstrained a/c cells of that row to 0.
use harness::prog::*;
use p3_baby_bear::BabyBear;
use p3_batch_stark::ProverData;
use p3_circuit::ops::AluOpKind;
use p3_circuit_prover::batch_stark_prover::{BatchStarkProver, CircuitProverData};
use p3_circuit_prover::common::get_airs_and_degrees_with_prep;
use p3_circuit_prover::config::{self, BabyBearConfig};
use p3_circuit_prover::{ConstraintProfile, TablePacking};
use p3_field::PrimeCharacteristicRing;

type B = BabyBear;
fn main() {
    use Stmt::*;
    let which = std::env::args().nth(1).unwrap_or("private".into());
    let prog = Program { stmts: vec![Private, AssertBool(0), Public, Mul(0, 1)] };
    let built = build_program::<B>(&prog).unwrap();
    println!("ops: {:?}", built.circuit.ops);
    let mut r = built.circuit.runner();
    r.set_public_inputs(&[B::from_u64(3)]).unwrap();
    r.set_private_inputs(&[B::from_u64(5)]).unwrap();
    let mut traces = r.run().unwrap();
    println!("honest alu trace: kinds {:?} values {:?}", traces.alu_trace.op_kind, traces.alu_trace.values);
    if which != "honest" {
        for i in 0..traces.alu_trace.op_kind.len() {
            if traces.alu_trace.op_kind[i] == AluOpKind::BoolCheck {
                traces.alu_trace.values[i][0] = B::ZERO;
                traces.alu_trace.values[i][2] = B::ZERO;
            }
        }
    }
    let pk = TablePacking::new(1, 1);
    let cfg = config::baby_bear();
    let (ad, prim, np) = get_airs_and_degrees_with_prep::<BabyBearConfig, B, 1>(&built.circuit, &pk, &[], &[], ConstraintProfile::Standard).unwrap();
    println!("alu prep: {:?}", prim[2]);
    let (airs, degs): (Vec<_>, Vec<usize>) = ad.into_iter().unzip();
    let pd = ProverData::from_airs_and_degrees(&cfg, &airs, &degs);
    let cpd = CircuitProverData::new(pd, prim, np);
    let prover = BatchStarkProver::new(cfg).with_table_packing(pk);
    let res = std::panic::catch_unwind(std::panic::AssertUnwindSafe(|| prover.prove_all_tables(&traces, &cpd)));
    match res {
        Ok(Ok(proof)) => println!("proved; verify: {:?}", prover.verify_all_tables::<B>(&proof)),
        Ok(Err(e)) => println!("prove error: {e:?}"),
        Err(_) => println!("prover panicked (debug constraint check)"),
    }
}
