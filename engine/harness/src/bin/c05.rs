//! C05: the in-circuit Fiat-Shamir transcript equals the native one.
//!
//! For every challenger history, the real `CircuitChallenger` builds a circuit (real compiler,
//! real Poseidon permutation executor) that is run on symbolic observed values, and the native
//! `p3_challenger::DuplexChallenger` is instantiated at the same symbolic field with the same
//! symbolic permutation (an uninterpreted function whose shadow is the real permutation). z3
//! decides that every sampled value agrees for all observed values and every permutation.
use std::sync::Arc;

use harness::common::*;
use p3_challenger::{CanObserve, CanSample, CanSampleBits, DuplexChallenger, FieldChallenger, GrindingChallenger};
use p3_circuit::ops::{OpStateMap, Poseidon2Config, Poseidon2Params, generate_recompose_trace};
use p3_circuit::tables::NonPrimitiveTrace;
use p3_circuit::{CircuitBuilder, CircuitError, ExprId};
use p3_field::extension::BinomialExtensionField;
use p3_field::{BasedVectorSpace, ExtensionField, Field, PrimeCharacteristicRing, PrimeField64};
use p3_recursion::challenger::CircuitChallenger;
use p3_recursion::traits::RecursiveChallenger;
use p3_symmetric::Permutation;
use rand::rngs::SmallRng;
use rand::{RngExt, SeedableRng};
use serde_json::{Value, json};

#[derive(Clone, Debug, PartialEq, Eq, Hash, serde::Serialize, serde::Deserialize)]
enum HOp {
    Observe,
    ObserveExt,
    Sample,
    SampleExt,
    SampleBits(usize),
    CheckPow(usize),
    Clear,
}

fn no_trace<F>(_: &OpStateMap) -> Result<Option<Box<dyn NonPrimitiveTrace<F>>>, CircuitError> {
    Ok(None)
}

// ---- symbolic Poseidon2 parameter sets (the permutation itself is a symbolic function) ----
struct SymBBD4W16;
impl Poseidon2Params for SymBBD4W16 {
    type BaseField = SymBB;
    const CONFIG: Poseidon2Config = Poseidon2Config::BABY_BEAR_D4_W16;
}
struct SymBBD1W16;
impl Poseidon2Params for SymBBD1W16 {
    type BaseField = SymBB;
    const CONFIG: Poseidon2Config = Poseidon2Config::BABY_BEAR_D1_W16;
}
struct SymGLD2W8;
impl Poseidon2Params for SymGLD2W8 {
    type BaseField = SymGL;
    const CONFIG: Poseidon2Config = Poseidon2Config::GOLDILOCKS_D2_W8;
}

fn shadow_bb16() -> ShadowFn {
    let perm = p3_test_utils::baby_bear_params::default_babybear_poseidon2_16();
    Arc::new(move |xs: &[u64]| {
        let a: [p3_baby_bear::BabyBear; 16] = core::array::from_fn(|i| p3_baby_bear::BabyBear::from_u64(xs[i]));
        perm.permute(a).iter().map(|x| x.as_canonical_u64()).collect()
    })
}
fn shadow_gl8() -> ShadowFn {
    let mut rng = SmallRng::seed_from_u64(1);
    let perm = p3_goldilocks::Poseidon2Goldilocks::<8>::new_from_rng_128(&mut rng);
    Arc::new(move |xs: &[u64]| {
        let a: [p3_goldilocks::Goldilocks; 8] = core::array::from_fn(|i| p3_goldilocks::Goldilocks::from_u64(xs[i]));
        perm.permute(a).iter().map(|x| x.as_canonical_u64()).collect()
    })
}

struct Outcome {
    /// (description, circuit value coords, native value coords)
    pairs: Vec<(String, Vec<H>, Vec<H>)>,
    pc: Vec<Fm>,
    run_err: Option<String>,
    n_perm_rows: usize,
}

/// Run one history on both sides. `W`,`R`: challenger width / rate; `C`: field cfg; `EF`: circuit field.
#[allow(clippy::too_many_arguments)]
fn run_history<C, EF, const W: usize, const R: usize>(
    hist: &[HOp],
    shadow: ShadowFn,
    mk_builder: &dyn Fn(SymPerm<W>) -> CircuitBuilder<EF>,
    mk_chal: &dyn Fn() -> CircuitChallenger<W, R, Poseidon2Config>,
    seed: &mut u64,
) -> Outcome
where
    C: FieldCfg,
    EF: Field + ExtensionField<SymF<C>> + BasedVectorSpace<SymF<C>>,
{
    reset::<C>();
    let perm = SymPerm::<W>::new("perm", shadow);
    let mut next = |name: &str| -> SymF<C> {
        *seed = seed.wrapping_mul(6364136223846793005).wrapping_add(1442695040888963407);
        SymF::var(name.to_string(), 1 + (*seed >> 20) % (C::P - 1))
    };
    // ---- native side, also fixes the symbolic inputs ----
    let mut native = DuplexChallenger::<SymF<C>, SymPerm<W>, W, R>::new(perm.clone());
    let mut inputs: Vec<EF> = Vec::new(); // one circuit public input per observed element
    let mut native_out: Vec<(String, Vec<SymF<C>>)> = Vec::new();
    let d = EF::DIMENSION;
    for (i, op) in hist.iter().enumerate() {
        match op {
            HOp::Observe => {
                let v = next(&format!("o{i}"));
                native.observe(v);
                inputs.push(EF::from(v));
            }
            HOp::ObserveExt => {
                let e = EF::from_basis_coefficients_fn(|j| next(&format!("e{i}_{j}")));
                native.observe_algebra_element(e);
                inputs.push(e);
            }
            HOp::Sample => {
                let s: SymF<C> = native.sample();
                native_out.push((format!("op{i}:sample"), vec![s]));
            }
            HOp::SampleExt => {
                let s: EF = native.sample_algebra_element();
                native_out.push((format!("op{i}:sample_ext"), s.as_basis_coefficients_slice().to_vec()));
            }
            HOp::SampleBits(k) => {
                let b = native.sample_bits(*k);
                let bits: Vec<SymF<C>> = (0..*k).map(|j| SymF::c(((b >> j) & 1) as u64)).collect();
                native_out.push((format!("op{i}:sample_bits{k}"), bits));
            }
            HOp::CheckPow(k) => {
                // grind a witness natively on a clone (shadow values decide), then observe it symbolically
                let mut w = 0u64;
                loop {
                    let mut probe = native.clone();
                    let cand = SymF::<C>::c(w);
                    if probe.check_witness(*k, cand) {
                        break;
                    }
                    w += 1;
                    assert!(w < 1 << 16, "pow grinding failed");
                }
                let wv = SymF::<C>::var(format!("pow{i}"), w);
                let ok = native.check_witness(*k, wv);
                native_out.push((format!("op{i}:pow{k}"), vec![SymF::c(ok as u64)]));
                inputs.push(EF::from(wv));
            }
            HOp::Clear => {
                native = DuplexChallenger::<SymF<C>, SymPerm<W>, W, R>::new(perm.clone());
            }
        }
    }
    let ev_native = events_len();
    // ---- circuit side ----
    let mut b = mk_builder(perm.clone());
    let mut chal = mk_chal();
    let mut in_targets: Vec<ExprId> = Vec::new();
    let mut out_targets: Vec<(String, Vec<ExprId>)> = Vec::new();
    let mut k_in = 0;
    let mut build = || -> Result<(), String> {
        for (i, op) in hist.iter().enumerate() {
            match op {
                HOp::Observe => {
                    let t = b.public_input();
                    in_targets.push(t);
                    k_in += 1;
                    RecursiveChallenger::<SymF<C>, EF>::observe(&mut chal, &mut b, t);
                }
                HOp::ObserveExt => {
                    let t = b.public_input();
                    in_targets.push(t);
                    k_in += 1;
                    RecursiveChallenger::<SymF<C>, EF>::observe_ext(&mut chal, &mut b, t);
                }
                HOp::Sample => {
                    let t = RecursiveChallenger::<SymF<C>, EF>::sample(&mut chal, &mut b);
                    out_targets.push((format!("op{i}:sample"), vec![t]));
                }
                HOp::SampleExt => {
                    let t = RecursiveChallenger::<SymF<C>, EF>::sample_ext(&mut chal, &mut b);
                    out_targets.push((format!("op{i}:sample_ext"), vec![t]));
                }
                HOp::SampleBits(k) => {
                    let ts = RecursiveChallenger::<SymF<C>, EF>::sample_bits(&mut chal, &mut b, *k).map_err(|e| format!("{e:?}"))?;
                    out_targets.push((format!("op{i}:sample_bits{k}"), ts));
                }
                HOp::CheckPow(k) => {
                    let t = b.public_input();
                    in_targets.push(t);
                    k_in += 1;
                    RecursiveChallenger::<SymF<C>, EF>::check_pow_witness(&mut chal, &mut b, *k, t).map_err(|e| format!("{e:?}"))?;
                    out_targets.push((format!("op{i}:pow{k}"), vec![]));
                }
                HOp::Clear => RecursiveChallenger::<SymF<C>, EF>::clear(&mut chal, &mut b),
            }
        }
        Ok(())
    };
    if let Err(e) = build() {
        return Outcome { pairs: vec![], pc: vec![], run_err: Some(format!("build: {e}")), n_perm_rows: 0 };
    }
    let _ = k_in;
    let circuit = match b.build() {
        Ok(c) => c,
        Err(e) => return Outcome { pairs: vec![], pc: vec![], run_err: Some(format!("build: {e:?}")), n_perm_rows: 0 },
    };
    let n_perm_rows = circuit.ops.iter().filter(|o| matches!(o, p3_circuit::ops::Op::NonPrimitiveOpWithExecutor { .. })).count();
    let mut runner = circuit.runner();
    let res = runner.set_public_inputs(&inputs).and_then(|_| runner.run());
    let pc: Vec<Fm> = events()[..].iter().filter_map(event_fm).collect();
    let _ = ev_native;
    match res {
        Err(e) => Outcome { pairs: vec![], pc, run_err: Some(format!("{e:?}")), n_perm_rows },
        Ok(tr) => {
            let mut pairs = Vec::new();
            for ((name, ts), (nname, nv)) in out_targets.iter().zip(&native_out) {
                assert_eq!(name, nname);
                if name.contains(":pow") {
                    // native accepted (ok = 1) and the circuit run did not fail: agreement on this path
                    pairs.push((name.clone(), vec![H::C(1)], vec![nv[0].h()]));
                    continue;
                }
                let mut cv: Vec<H> = Vec::new();
                for t in ts {
                    let w = circuit.expr_to_widx[t];
                    let v: EF = *tr.witness_trace.get_value(w).unwrap();
                    let cs = v.as_basis_coefficients_slice();
                    if name.contains("sample_ext") {
                        cv.extend(cs.iter().map(|c| c.h()));
                    } else {
                        // base-valued targets: coordinate 0 carries the value, the rest must be 0
                        cv.push(cs[0].h());
                        for c in &cs[1..] {
                            pairs.push((format!("{name}:high-coordinate"), vec![c.h()], vec![H::C(0)]));
                        }
                    }
                }
                pairs.push((name.clone(), cv, nv.iter().map(|x| x.h()).collect()));
            }
            Outcome { pairs, pc, run_err: None, n_perm_rows }
        }
    }
}

fn histories(tier: &str, seed: u64, allow_ext: bool) -> Vec<Vec<HOp>> {
    let base: Vec<HOp> = if allow_ext {
        vec![HOp::Observe, HOp::ObserveExt, HOp::Sample, HOp::SampleExt, HOp::SampleBits(3), HOp::CheckPow(2), HOp::Clear]
    } else {
        vec![HOp::Observe, HOp::Sample, HOp::SampleBits(3), HOp::CheckPow(2), HOp::Clear]
    };
    let mut out: Vec<Vec<HOp>> = Vec::new();
    // exhaustive short histories
    let maxlen = if tier == "thorough" { 6 } else { 4 };
    fn rec(cur: &mut Vec<HOp>, left: usize, base: &[HOp], out: &mut Vec<Vec<HOp>>) {
        if !cur.is_empty() {
            out.push(cur.clone());
        }
        if left == 0 {
            return;
        }
        for o in base {
            cur.push(o.clone());
            rec(cur, left - 1, base, out);
            cur.pop();
        }
    }
    rec(&mut Vec::new(), maxlen, &base, &mut out);
    // seeded longer histories crossing the rate boundary (bias to observe)
    let mut rng = SmallRng::seed_from_u64(seed.wrapping_mul(17).wrapping_add(3));
    let n = if tier == "thorough" { 600 } else { 80 };
    for _ in 0..n {
        let len = rng.random_range(3..=26);
        let mut h = Vec::new();
        for _ in 0..len {
            let k = rng.random_range(0..20);
            h.push(match k {
                0..=10 => HOp::Observe,
                11..=12 if allow_ext => HOp::ObserveExt,
                13..=15 => HOp::Sample,
                16 if allow_ext => HOp::SampleExt,
                17 => HOp::SampleBits(rng.random_range(1..=8)),
                18 => HOp::CheckPow(rng.random_range(1..=3)),
                19 => HOp::Clear,
                _ => HOp::Observe,
            });
        }
        out.push(h);
    }
    // squeeze-phase families: after k observes, a base-granularity draws consume part of one squeeze,
    // then b draws follow with NO observe in between, so that base and extension draws straddle the
    // squeeze boundary in every alignment (output buffer length not a multiple of the degree)
    let draws: Vec<HOp> = if allow_ext { vec![HOp::Sample, HOp::SampleExt, HOp::SampleBits(5), HOp::CheckPow(1)] } else { vec![HOp::Sample, HOp::SampleBits(5), HOp::CheckPow(1)] };
    for k in [0usize, 3, 8, 9] {
        for first in &draws {
            for a in 1..=3usize {
                for second in &draws {
                    for b in 2..=(if tier == "thorough" { 5 } else { 3 }) {
                        if first == second {
                            continue;
                        }
                        let mut h = vec![HOp::Observe; k];
                        h.extend(std::iter::repeat(first.clone()).take(a));
                        h.extend(std::iter::repeat(second.clone()).take(b));
                        h.push(HOp::Sample);
                        out.push(h);
                    }
                }
            }
        }
    }
    // the named regression shape: duplex, clear, observe, sample
    let mut h = vec![HOp::Observe; 8];
    h.extend([HOp::Sample, HOp::Clear, HOp::Observe, HOp::Observe, HOp::Observe, HOp::Sample]);
    out.push(h);
    out
}

fn main() {
    let args = parse_args();
    let mut sh = Shard::new();
    sh.functions = [
        "p3_recursion::challenger::CircuitChallenger::{observe, observe_ext, sample, sample_ext, sample_bits, check_pow_witness, clear, duplexing, duplexing_base, duplexing_ext} (builds the circuit)",
        "CircuitBuilder::{add_poseidon2_perm_for_challenger(_base), recompose_base_coeffs_to_ext, decompose_ext_to_base_coeffs, decompose_to_bits} + real compiler",
        "CircuitRunner::run incl. the Poseidon permutation executor and hint executors (symbolic)",
        "p3_challenger::DuplexChallenger<SymF, SymPerm, W, R> (native side, same symbols)",
    ].iter().map(|s| s.to_string()).collect();
    let timeout_ms = if args.tier == "thorough" { 20_000 } else { 5_000 };
    let mut seed = args.seed ^ 0x55AA;
    let mut idx = 0usize;
    let mut violations: Vec<Value> = Vec::new();
    let mut distinct = 0usize;

    macro_rules! run_cfg {
        ($name:expr, $C:ty, $EF:ty, $W:expr, $R:expr, $allow_ext:expr, $shadow:expr, $mk_builder:expr, $mk_chal:expr) => {{
            let mut solver = Solver::new(SolverKind::Z3, <$C as FieldCfg>::P, timeout_ms);
            for h in histories(&args.tier, args.seed, $allow_ext) {
                idx += 1;
                if idx % args.nshards != args.shard {
                    continue;
                }
                distinct += 1;
                sh.bump("programs");
                let o = run_history::<$C, $EF, $W, $R>(&h, $shadow, &$mk_builder, &$mk_chal, &mut seed);
                sh.add("c05.permutation_rows", o.n_perm_rows as f64);
                sh.sample(json!({"config": $name, "history": format!("{h:?}"), "perm_ops": o.n_perm_rows, "path_condition_atoms": o.pc.len()}), 10);
                if let Some(e) = &o.run_err {
                    // the native challenger accepted this history: the circuit must too
                    sh.bump("c05.violations_confirmed");
                    violations.push(json!({"property": "C05", "kind": "circuit-run-fails", "signature": format!("C05/circuit-run-fails:{}", $name),
                        "detail": format!("circuit challenger run fails on a history the native challenger accepts: {e}"), "program_text": format!("{} {h:?}", $name), "history": h, "confirmed_by_native_replay": true}));
                    continue;
                }
                solver.push();
                let mut rw = rewriter_from(<$C as FieldCfg>::P, &o.pc, false);
                'pairs: for (name, cv, nv) in &o.pairs {
                    if cv.len() != nv.len() {
                        violations.push(json!({"property": "C05", "kind": "shape", "signature": format!("C05/shape:{}", $name), "detail": format!("{name}: {} vs {} values", cv.len(), nv.len()), "program_text": format!("{} {h:?}", $name), "confirmed_by_native_replay": true}));
                        break;
                    }
                    for (c, n) in cv.iter().zip(nv) {
                        let goal = Fm::Eq(*c, *n);
                        match discharge(&mut solver, &mut rw, &o.pc, &goal, &mut sh, "c05.sample") {
                            Verdict::Holds => {}
                            Verdict::Cex(_m) => {
                                // replay: the shadows ARE a concrete native/circuit run with the real permutation
                                let differs_concretely = with_arena(|a| a.shadow(*c) != a.shadow(*n));
                                let v = json!({"property": "C05", "kind": "sample-differs", "signature": format!("C05/sample-differs:{}", $name),
                                    "detail": format!("{name}: in-circuit value differs from the native challenger's"), "program_text": format!("{} {h:?}", $name), "history": h,
                                    "confirmed_by_native_replay": differs_concretely});
                                if differs_concretely {
                                    sh.bump("c05.violations_confirmed");
                                    violations.push(v);
                                } else {
                                    sh.undecided.push(json!({"non_reproducing_counterexample": v}));
                                }
                                break 'pairs;
                            }
                            Verdict::Undecided(w) => sh.undecided.push(json!({"program": format!("{} {h:?}", $name), "ob": name, "why": w})),
                        }
                    }
                }
                solver.pop();
            }
            sh.absorb_solver("z3", &solver.stats);
        }};
    }

    type BB4 = BinomialExtensionField<SymBB, 4>;
    type GL2 = BinomialExtensionField<SymGL, 2>;
    run_cfg!("bb-d4-w16-p2-recompose-on", BabyBearCfg, BB4, 16, 8, true, shadow_bb16(),
        |perm: SymPerm<16>| { let mut b = CircuitBuilder::<BB4>::new(); b.enable_poseidon2_perm::<SymBBD4W16, _>(no_trace::<BB4>, perm); b.enable_recompose::<SymBB>(generate_recompose_trace::<SymBB, BB4>); b },
        || CircuitChallenger::<16, 8, Poseidon2Config>::new_babybear());
    run_cfg!("bb-d4-w16-p2-recompose-off", BabyBearCfg, BB4, 16, 8, true, shadow_bb16(),
        |perm: SymPerm<16>| { let mut b = CircuitBuilder::<BB4>::new(); b.enable_poseidon2_perm::<SymBBD4W16, _>(no_trace::<BB4>, perm); b },
        || CircuitChallenger::<16, 8, Poseidon2Config>::new_babybear());
    run_cfg!("bb-d1-w16-p2", BabyBearCfg, SymBB, 16, 8, false, shadow_bb16(),
        |perm: SymPerm<16>| { let mut b = CircuitBuilder::<SymBB>::new(); b.enable_poseidon2_perm_base::<SymBBD1W16, _>(no_trace::<SymBB>, perm); b },
        || CircuitChallenger::<16, 8, Poseidon2Config>::new_babybear_base());
    run_cfg!("gl-d2-w8-p2", GoldilocksCfg, GL2, 8, 4, true, shadow_gl8(),
        |perm: SymPerm<8>| { let mut b = CircuitBuilder::<GL2>::new(); b.enable_poseidon2_perm_width_8::<SymGLD2W8, _>(no_trace::<GL2>, perm); b },
        || CircuitChallenger::<8, 4, Poseidon2Config>::new_goldilocks());

    sh.add("distinct_programs", distinct as f64);
    sh.violations = violations;
    sh.write(&args.out);
}
