//! C02 (compilation preserves values and run outcome) and C03 (no asserted relation is
//! dropped) — real compiler run on enumerated programs, real runner executed on `SymF`,
//! obligations decided by z3 over all field values.
use std::collections::BTreeMap;

use harness::common::*;
use harness::prog::*;
use p3_baby_bear::BabyBear;
use p3_circuit::ops::{AluOpKind, Op};
use p3_circuit::{CircuitError, WitnessId};
use p3_field::{Field, PrimeCharacteristicRing, PrimeField64};
use rand::SeedableRng;
use rand::rngs::SmallRng;
use serde_json::{Value, json};

type F = SymBB;
const P: u64 = BabyBearCfg::P;

fn splitmix(x: &mut u64) -> u64 {
    *x = x.wrapping_add(0x9E3779B97F4A7C15);
    let mut z = *x;
    z = (z ^ (z >> 30)).wrapping_mul(0xBF58476D1CE4E5B9);
    z = (z ^ (z >> 27)).wrapping_mul(0x94D049BB133111EB);
    z ^ (z >> 31)
}

fn programs(tier: &str, seed: u64) -> Vec<Program> {
    let mut out: Vec<Program> = Vec::new();
    // hand-written regression shapes (aliasing patterns named in the design)
    for p in fixed_programs() {
        out.push(p);
    }
    // exhaustive small scope
    let (k1_kinds, k2_kinds): (&[&str], &[&str]) = if tier == "thorough" {
        (&["add", "sub", "mul", "div", "muladd", "select", "horner"], &["add", "sub", "mul", "div", "muladd"])
    } else {
        (&["add", "sub", "mul", "div", "muladd", "select"], &["add", "sub", "mul", "div"])
    };
    let mut all2 = Vec::new();
    for with_private in [false, true] {
        enumerate_small(1, k1_kinds, with_private, &mut |p| {
            out.push(p);
            true
        });
        enumerate_small(2, k2_kinds, with_private, &mut |p| {
            all2.push(p);
            true
        });
    }
    // k=3 with a private input, restricted to the kinds that make backwards ops (sub/div)
    // and products/sums (fusion): sampled
    let mut all3 = Vec::new();
    enumerate_small(3, &["sub", "mul", "add"], true, &mut |p| {
        all3.push(p);
        true
    });
    {
        let mut st = seed ^ 0x5EED3;
        let want = if tier == "thorough" { 3000 } else { 600 };
        for _ in 0..want.min(all3.len()) {
            let i = (splitmix(&mut st) % all3.len() as u64) as usize;
            out.push(all3[i].clone());
        }
    }
    if tier == "thorough" {
        // the exhaustive k=2 space (tens of thousands of programs, many of them division /
        // select shapes that need the non-linear solver stages) took more than an hour: a larger
        // seeded sample instead
        let mut st = seed ^ 0xC0FFEE;
        let want = 6000usize;
        let n = all2.len();
        for _ in 0..want.min(n) {
            let i = (splitmix(&mut st) % n as u64) as usize;
            out.push(all2[i].clone());
        }
    } else {
        // quick: deterministic sample of the k=2 space (seeded)
        let mut st = seed ^ 0xC0FFEE;
        let want = 1500usize;
        let n = all2.len();
        for _ in 0..want.min(n) {
            let i = (splitmix(&mut st) % n as u64) as usize;
            out.push(all2[i].clone());
        }
    }
    // seeded random DAGs
    let n_rand = if tier == "thorough" { 3000 } else { 800 };
    let mut rng = SmallRng::seed_from_u64(seed.wrapping_mul(7919).wrapping_add(13));
    for i in 0..n_rand {
        let max_ops = if i % 4 == 0 { 12 } else { 6 };
        out.push(gen_random(&mut rng, max_ops, true));
    }
    for _ in 0..(if tier == "thorough" { 1200 } else { 400 }) {
        out.push(gen_private_alias(&mut rng));
    }
    let n_fus = if tier == "thorough" { 5000 } else { 1500 };
    for i in 0..n_fus {
        out.push(if i % 2 == 0 { gen_fusion_family(&mut rng) } else { gen_fusion_dag(&mut rng) });
    }
    out
}

fn fixed_programs() -> Vec<Program> {
    use Stmt::*;
    let p = |s: Vec<Stmt>| Program { stmts: s };
    vec![
        // dedup with aliased operands and a second writer of the duplicate's output
        p(vec![Public, Public, Public, Public, Connect(1, 2), Mul(0, 1), Mul(0, 2), Connect(5, 3)]),
        // two horner steps, same (alpha,pz,px), different accumulators
        p(vec![Public, Public, Public, Public, Public, Horner(0, 2, 3, 4), Horner(1, 2, 3, 4)]),
        // horner chain
        p(vec![Public, Public, Public, Public, Horner(0, 1, 2, 3), Horner(4, 1, 2, 3), Horner(5, 1, 3, 2)]),
        // fusion: single-use product feeding a sum, product aliased to a public
        p(vec![Public, Public, Public, Public, Mul(0, 1), Add(4, 2), Connect(4, 3)]),
        // fusion with the sum connected
        p(vec![Public, Public, Public, Public, Mul(0, 1), Add(4, 2), Connect(5, 3)]),
        // public-public alias, public-const alias
        p(vec![Public, Public, Connect(0, 1)]),
        p(vec![Public, Const(5), Connect(0, 1)]),
        p(vec![Const(1), Const(2), Connect(0, 1)]),
        // division patterns
        p(vec![Public, Public, Div(0, 1), Mul(2, 1), Connect(3, 0)]),
        p(vec![Public, Div(0, 0)]),
        p(vec![Public, Public, Sub(0, 1), Div(0, 2)]),
        // bool check + select
        p(vec![Public, Public, Public, AssertBool(0), Select(0, 1, 2)]),
        p(vec![Public, AssertBool(0), AssertBool(0), Mul(0, 0), Connect(1, 0)]),
        // private inputs
        p(vec![Public, Private, Mul(0, 1), Public, Connect(2, 3)]),
        p(vec![Private, Private, Add(0, 1), AssertZero(2)]),
        // private input as dividend, then used once in a sum (fusion over a backwards mul)
        p(vec![Public, Private, Div(1, 0), Add(1, 0)]),
        p(vec![Public, Private, Public, Div(1, 0), Add(1, 2), Mul(3, 4)]),
        // product aliased to a later sum, then used once in another sum
        p(vec![Public, Public, Public, Public, Mul(0, 1), Add(2, 3), Connect(4, 5), Add(4, 0)]),
        // chained fusion depending on a rejected fusion (addend defined after the first product)
        p(vec![Public, Public, Public, Public, Public, Public, Mul(0, 1), Mul(2, 3), Add(4, 5), Add(6, 8), Add(7, 9)]),
        // sub encodings sharing operands
        p(vec![Public, Public, Sub(0, 1), Add(2, 1), Connect(3, 0)]),
        p(vec![Public, Public, Sub(0, 1), Sub(0, 1), Add(1, 2)]),
        // mul_add with const zero addend / const one factor
        p(vec![Public, Public, Const(0), Const(1), MulAdd(0, 1, 2), MulAdd(0, 3, 1), MulAdd(3, 3, 2)]),
    ]
}

#[derive(Clone, Debug)]
struct Cex {
    property: &'static str,
    kind: String,
    detail: String,
    publics: Vec<u64>,
    privates: Vec<u64>,
    /// C03: forged witness vector and which source relation fails
    witness: Option<Vec<u64>>,
}

struct NativeRun {
    build_err: Option<String>,
    run_err: Option<String>,
    /// value per program value: (slot value, denotation)
    mismatches: Vec<(usize, u64, u64)>,
    rel_holds: bool,
    div_ok: bool,
    rows_ok: bool,
}

/// Replay a counterexample against the real, concrete code (BabyBear).
fn native_c02(prog: &Program, publics: &[u64], privates: &[u64]) -> NativeRun {
    type B = BabyBear;
    let pubs: Vec<B> = publics.iter().map(|&x| B::from_u64(x)).collect();
    let privs: Vec<B> = privates.iter().map(|&x| B::from_u64(x)).collect();
    let div_bad = std::cell::Cell::new(false);
    let den = denote::<B>(prog, &pubs, &privs, |x| {
        x.try_inverse().unwrap_or_else(|| {
            div_bad.set(true);
            B::ZERO
        })
    });
    let rel_holds = den.rel.iter().all(|(l, r, _)| l == r);
    let mut out = NativeRun {
        build_err: None,
        run_err: None,
        mismatches: vec![],
        rel_holds,
        div_ok: !div_bad.get(),
        rows_ok: true,
    };
    let built = match build_program::<B>(prog) {
        Ok(b) => b,
        Err(e) => {
            out.build_err = Some(e);
            return out;
        }
    };
    let mut r = built.circuit.runner();
    let res = r
        .set_public_inputs(&pubs)
        .and_then(|_| r.set_private_inputs(&privs))
        .and_then(|_| r.run());
    match res {
        Err(e) => out.run_err = Some(format!("{e:?}")),
        Ok(tr) => {
            for (i, e) in built.exprs.iter().enumerate() {
                if let Some(w) = built.circuit.expr_to_widx.get(e) {
                    let got = tr.witness_trace.get_value(*w).unwrap().as_canonical_u64();
                    let want = den.vals[i].as_canonical_u64();
                    if got != want {
                        out.mismatches.push((i, got, want));
                    }
                }
            }
            // provability proxy: every ALU row satisfies its relation on the row values and
            // the row values are the witness values at the row's indices.
            let at = &tr.alu_trace;
            for r in 0..at.op_kind.len() {
                let [a, b, c, o] = at.values[r];
                let ok = match at.op_kind[r] {
                    AluOpKind::Add => a + b == o,
                    AluOpKind::Mul => a * b == o,
                    AluOpKind::BoolCheck => a * (a - B::ONE) == B::ZERO && o == a,
                    AluOpKind::MulAdd => a * b + c == o,
                    AluOpKind::HornerAcc => true,
                };
                if !ok {
                    out.rows_ok = false;
                }
            }
        }
    }
    out
}

/// Relation carried by each emitted op over slot values `w` and public values `pv`.
fn op_relations<T: Field>(ops: &[Op<T>], w: &dyn Fn(WitnessId) -> T, pv: &dyn Fn(usize) -> T) -> Vec<(T, T, String)> {
    let mut out = Vec::new();
    for (i, op) in ops.iter().enumerate() {
        match op {
            Op::Const { out: o, val } => out.push((w(*o), *val, format!("op{i}:const"))),
            Op::Public { out: o, public_pos } => out.push((w(*o), pv(*public_pos), format!("op{i}:public"))),
            Op::Alu { kind, a, b, c, out: o, intermediate_out } => match kind {
                AluOpKind::Add => out.push((w(*a) + w(*b), w(*o), format!("op{i}:add"))),
                AluOpKind::Mul => out.push((w(*a) * w(*b), w(*o), format!("op{i}:mul"))),
                AluOpKind::BoolCheck => {
                    out.push((w(*a) * (w(*a) - T::ONE), T::ZERO, format!("op{i}:bool")));
                    out.push((w(*o), w(*a), format!("op{i}:bool-out")));
                }
                AluOpKind::MulAdd => {
                    let cv = c.map(|c| w(c)).unwrap_or(T::ZERO);
                    out.push((w(*a) * w(*b) + cv, w(*o), format!("op{i}:muladd")));
                }
                AluOpKind::HornerAcc => {
                    let acc = intermediate_out.expect("horner acc");
                    let cv = c.map(|c| w(c)).unwrap_or(T::ZERO);
                    out.push((w(acc) * w(*b) + cv - w(*a), w(*o), format!("op{i}:horner")));
                }
            },
            Op::Hint { .. } | Op::NonPrimitiveOpWithExecutor { .. } => {}
        }
    }
    out
}

/// Source relations of the program read through `expr_to_widx`.
fn source_relations<T: Field>(
    prog: &Program,
    slot: &dyn Fn(usize) -> Option<T>,
    pv: &dyn Fn(usize) -> T,
) -> Vec<(T, T, String)> {
    let mut out = Vec::new();
    let mut vi = 0usize;
    let mut np = 0usize;
    let s = |i: usize| slot(i);
    for (si, st) in prog.stmts.iter().enumerate() {
        let me = if st.produces_value() { s(vi) } else { None };
        let mut push = |l: Option<T>, r: Option<T>, what: String| {
            if let (Some(l), Some(r)) = (l, r) {
                out.push((l, r, what));
            }
        };
        match *st {
            Stmt::Const(c) => push(me, Some(konst::<T>(c)), format!("stmt{si}:const")),
            Stmt::Public => {
                push(me, Some(pv(np)), format!("stmt{si}:public{np}"));
                np += 1;
            }
            Stmt::Private => {}
            Stmt::Add(i, j) => push(me, s(i).zip(s(j)).map(|(a, b)| a + b), format!("stmt{si}:add")),
            Stmt::Sub(i, j) => push(me.zip(s(j)).map(|(m, b)| m + b), s(i), format!("stmt{si}:sub")),
            Stmt::Mul(i, j) => push(me, s(i).zip(s(j)).map(|(a, b)| a * b), format!("stmt{si}:mul")),
            Stmt::Div(i, j) => push(me.zip(s(j)).map(|(m, b)| m * b), s(i), format!("stmt{si}:div")),
            Stmt::MulAdd(i, j, k) => {
                push(me, s(i).zip(s(j)).zip(s(k)).map(|((a, b), c)| a * b + c), format!("stmt{si}:muladd"))
            }
            Stmt::Horner(a, al, z, x) => push(
                me,
                s(a).zip(s(al)).zip(s(z)).zip(s(x)).map(|(((a, al), z), x)| a * al + z - x),
                format!("stmt{si}:horner"),
            ),
            Stmt::Select(c, t, e) => push(
                me,
                s(c).zip(s(t)).zip(s(e)).map(|((c, t), e)| e + c * (t - e)),
                format!("stmt{si}:select"),
            ),
            Stmt::AssertBool(i) => push(s(i).map(|x| x * (x - T::ONE)), Some(T::ZERO), format!("stmt{si}:assert_bool")),
            Stmt::Connect(i, j) => push(s(i), s(j), format!("stmt{si}:connect")),
            Stmt::AssertZero(i) => push(s(i), Some(T::ZERO), format!("stmt{si}:assert_zero")),
        }
        if st.produces_value() {
            vi += 1;
        }
    }
    out
}

/// Witness slots that some emitted op reads or writes (a, b, c, out, HornerAcc accumulator,
/// hint / NPO operands). A MulAdd's `intermediate_out` is *not* observable: no table holds it.
fn observable_slots<T>(ops: &[Op<T>]) -> std::collections::HashSet<u32> {
    let mut s = std::collections::HashSet::new();
    for op in ops {
        match op {
            Op::Const { out, .. } | Op::Public { out, .. } => {
                s.insert(out.0);
            }
            Op::Alu { kind, a, b, c, out, intermediate_out } => {
                s.extend([a.0, b.0, out.0]);
                if let Some(c) = c {
                    s.insert(c.0);
                }
                if *kind == AluOpKind::HornerAcc {
                    if let Some(acc) = intermediate_out {
                        s.insert(acc.0);
                    }
                }
            }
            Op::Hint { inputs, outputs, .. } => {
                s.extend(inputs.iter().map(|w| w.0));
                s.extend(outputs.iter().map(|w| w.0));
            }
            Op::NonPrimitiveOpWithExecutor { inputs, outputs, .. } => {
                s.extend(inputs.iter().flatten().map(|w| w.0));
                s.extend(outputs.iter().flatten().map(|w| w.0));
            }
        }
    }
    s
}

/// Value term of each program value in the proven system: its witness slot when some op
/// touches that slot; otherwise (value fused away, slot held by no table) its source
/// definition over the effective terms of its operands.
fn effective_slots<T: Field>(
    prog: &Program,
    built: &Built<T>,
    w: &dyn Fn(WitnessId) -> T,
    pv: &dyn Fn(usize) -> T,
) -> Vec<Option<T>> {
    let obs = observable_slots(&built.circuit.ops);
    let mut eff: Vec<Option<T>> = Vec::new();
    let mut np = 0usize;
    for st in &prog.stmts {
        if !st.produces_value() {
            continue;
        }
        let i = eff.len();
        let slot = built.circuit.expr_to_widx.get(&built.exprs[i]).copied();
        let direct = slot.filter(|s| obs.contains(&s.0)).map(|s| w(s));
        let e = |k: usize| eff[k];
        let inlined: Option<T> = match *st {
            Stmt::Const(c) => Some(konst::<T>(c)),
            Stmt::Public => Some(pv(np)),
            Stmt::Private => slot.map(|s| w(s)),
            Stmt::Add(a, b) => e(a).zip(e(b)).map(|(a, b)| a + b),
            Stmt::Sub(a, b) => e(a).zip(e(b)).map(|(a, b)| a - b),
            Stmt::Mul(a, b) => e(a).zip(e(b)).map(|(a, b)| a * b),
            Stmt::Div(..) => None,
            Stmt::MulAdd(a, b, c) => e(a).zip(e(b)).zip(e(c)).map(|((a, b), c)| a * b + c),
            Stmt::Horner(a, al, z, x) => e(a).zip(e(al)).zip(e(z)).zip(e(x)).map(|(((a, al), z), x)| a * al + z - x),
            Stmt::Select(c, t, s) => e(c).zip(e(t)).zip(e(s)).map(|((c, t), s)| s + c * (t - s)),
            _ => None,
        };
        if matches!(st, Stmt::Public) {
            np += 1;
        }
        eff.push(direct.or(inlined));
    }
    eff
}

/// Native replay for C03: forged witness satisfies every op relation, violates a source relation.
fn native_c03(prog: &Program, publics: &[u64], witness: &[u64]) -> Result<(bool, Vec<String>), String> {
    type B = BabyBear;
    let built = build_program::<B>(prog)?;
    let w = |id: WitnessId| B::from_u64(witness.get(id.0 as usize).copied().unwrap_or(0));
    let pv = |k: usize| B::from_u64(publics.get(k).copied().unwrap_or(0));
    let ops_ok = op_relations::<B>(&built.circuit.ops, &w, &pv).iter().all(|(l, r, _)| l == r);
    let eff = effective_slots::<B>(prog, &built, &w, &pv);
    let slot = |i: usize| eff[i];
    let failing: Vec<String> = source_relations::<B>(prog, &slot, &pv)
        .into_iter()
        .filter(|(l, r, _)| l != r)
        .map(|(_, _, n)| n)
        .collect();
    Ok((ops_ok, failing))
}

fn main() {
    let args = parse_args();
    if let Some(path) = &args.replay {
        std::process::exit(replay_file(path));
    }
    let mut sh = Shard::new();
    sh.functions = [
        "p3_circuit::builder::CircuitBuilder::{public_input,alloc_private_input,define_const,add,sub,mul,div,mul_add,horner_acc_step,select,assert_bool,connect,assert_zero,build} (concrete, per enumerated program)",
        "p3_circuit::builder::compiler::{ExpressionLowerer::lower, ConnectDsu, Optimizer::optimize (Deduplicator, MulAddFusion)} (concrete, per program)",
        "p3_circuit::tables::CircuitRunner::{set_public_inputs,set_private_inputs,run,execute_all,execute_alu_op,set_witness,get_witness} (symbolic on SymF)",
    ]
    .iter()
    .map(|s| s.to_string())
    .collect();
    let timeout_ms = if args.tier == "thorough" { 30_000 } else { 4_000 };
    let progs = programs(&args.tier, args.seed);
    sh.add("programs_generated_total", progs.len() as f64);
    let mut distinct = std::collections::HashSet::new();
    let mut solver = Solver::new(SolverKind::Z3, P, timeout_ms);
    if args.shard == 0 {
        solver.set_transcript(std::path::Path::new(&format!("{}.smt2", args.out)));
    }
    let mut st = args.seed ^ 0xABCDEF;
    for (idx, prog) in progs.iter().enumerate() {
        if idx % args.nshards != args.shard {
            continue;
        }
        if !distinct.insert(prog.clone()) {
            sh.bump("programs_duplicate_skipped");
            continue;
        }
        if sh.violations.len() >= 25 {
            sh.bump("programs_skipped_after_25_violations");
            continue;
        }
        sh.bump("programs");
        check_program(prog, &mut solver, &mut sh, &mut st);
    }
    sh.add("distinct_programs", distinct.len() as f64);
    sh.absorb_solver("z3", &solver.stats);
    sh.absorb_slow(&solver);
    sh.write(&args.out);
}

fn fm_eq(l: F, r: F) -> Fm {
    Fm::Eq(l.h(), r.h())
}

fn model_vals(m: &BTreeMap<u32, u64>, ids: &[u32], default: &[u64]) -> Vec<u64> {
    ids.iter().zip(default).map(|(v, d)| m.get(v).copied().unwrap_or(*d) % P).collect()
}

fn check_program(prog: &Program, solver: &mut Solver, sh: &mut Shard, st: &mut u64) {
    // ---------------- symbolic setup ----------------
    reset::<BabyBearCfg>();
    set_assume_equal(true);
    let npub = prog.n_public();
    let npriv = prog.n_private();
    let pub_sh: Vec<u64> = (0..npub).map(|_| 2 + splitmix(st) % (P - 2)).collect();
    let priv_sh: Vec<u64> = (0..npriv).map(|_| 2 + splitmix(st) % (P - 2)).collect();
    let pubs: Vec<F> = (0..npub).map(|i| F::var(format!("pub{i}"), pub_sh[i])).collect();
    let privs: Vec<F> = (0..npriv).map(|i| F::var(format!("priv{i}"), priv_sh[i])).collect();
    let pub_ids: Vec<u32> = (0..npub as u32).collect();
    let priv_ids: Vec<u32> = (npub as u32..(npub + npriv) as u32).collect();
    let const_zero_div = std::cell::Cell::new(false);
    let den = denote::<F>(prog, &pubs, &privs, |x| {
        x.try_inverse().unwrap_or_else(|| {
            const_zero_div.set(true);
            F::ZERO
        })
    });
    if const_zero_div.get() {
        sh.bump("programs_div_by_const_zero_skipped");
        return;
    }
    let div_h: Vec<Fm> = den.divisors.iter().filter(|d| !d.is_const()).map(|d| Fm::Ne(d.h(), H::C(0))).collect();
    let rel_h: Vec<(Fm, String)> = den.rel.iter().map(|(l, r, n)| (fm_eq(*l, *r), n.clone())).collect();
    let ev0 = events_len();

    let built = match build_program::<F>(prog) {
        Ok(b) => b,
        Err(e) => {
            sh.bump("programs_rejected_by_builder");
            if e.starts_with("panic") {
                sh.bump("builder_panics");
                sh.notes.push(format!("builder panic on {}: {e}", prog.text()));
            }
            return;
        }
    };
    assert_eq!(events_len(), ev0, "builder must not branch on symbolic values");
    sh.sample(json!({"program": prog.text(), "ops": format!("{:?}", built.circuit.ops), "rewrite": format!("{:?}", built.circuit.witness_rewrite)}), 12);

    let only = std::env::var("VERIF_ONLY").unwrap_or_default();
    if only != "c03" {
        c02(prog, &built, &pubs, &privs, &den, &div_h, &rel_h, &pub_ids, &priv_ids, &pub_sh, &priv_sh, solver, sh);
    }
    if only != "c02" {
        c03(prog, &built, solver, sh);
    }
}

#[allow(clippy::too_many_arguments)]
fn c02(
    prog: &Program,
    built: &Built<F>,
    pubs: &[F],
    privs: &[F],
    den: &Denotation<F>,
    div_h: &[Fm],
    rel_h: &[(Fm, String)],
    pub_ids: &[u32],
    priv_ids: &[u32],
    pub_sh: &[u64],
    priv_sh: &[u64],
    solver: &mut Solver,
    sh: &mut Shard,
) {
    let ev0 = events_len();
    let mut r = built.circuit.runner();
    let res = r.set_public_inputs(pubs).and_then(|_| r.set_private_inputs(privs)).and_then(|_| r.run());
    let evs = events()[ev0..].to_vec();
    let pc: Vec<Fm> = evs.iter().filter_map(event_fm).collect();
    sh.add("c02.path_condition_atoms", pc.len() as f64);

    let mk_cex = |m: &BTreeMap<u32, u64>, kind: &str, detail: String| Cex {
        property: "C02",
        kind: kind.to_string(),
        detail,
        publics: model_vals(m, pub_ids, pub_sh),
        privates: model_vals(m, priv_ids, priv_sh),
        witness: None,
    };

    solver.push();
    match res {
        Err(e) => {
            sh.bump("c02.err_paths");
            // (b) on the error path: Div ∧ Rel ∧ PC must be unsatisfiable
            let mut hyps: Vec<Fm> = div_h.to_vec();
            hyps.extend(rel_h.iter().map(|x| x.0.clone()));
            hyps.extend(pc.iter().cloned());
            let mut rw = rewriter_from(P, &hyps, false);
            match discharge(solver, &mut rw, &hyps, &Fm::False, sh, "c02.b_errpath") {
                Verdict::Holds => {}
                Verdict::Cex(m) => report(prog, mk_cex(&m, "b", format!("run fails ({}) although Rel and Div hold", err_name(&e))), sh),
                Verdict::Undecided(w) => sh.undecided.push(json!({"program": prog.text(), "ob": "c02.b_errpath", "why": w})),
            }
        }
        Ok(tr) => {
            sh.bump("c02.ok_paths");
            // (a) values
            let mut hyps_a: Vec<Fm> = div_h.to_vec();
            hyps_a.extend(pc.iter().cloned());
            let mut rw = rewriter_from(P, &hyps_a, false);
            for (i, e) in built.exprs.iter().enumerate() {
                let Some(w) = built.circuit.expr_to_widx.get(e) else {
                    sh.bump("c02.values_without_slot");
                    continue;
                };
                let got = *tr.witness_trace.get_value(*w).unwrap();
                let goal = fm_eq(got, den.vals[i]);
                match discharge(solver, &mut rw, &hyps_a, &goal, sh, "c02.a") {
                    Verdict::Holds => {}
                    Verdict::Cex(m) => {
                        report(prog, mk_cex(&m, "a", format!("v{i} slot {w} differs from denotation")), sh);
                        break;
                    }
                    Verdict::Undecided(why) => sh.undecided.push(json!({"program": prog.text(), "ob": format!("c02.a v{i}"), "why": why})),
                }
            }
            // (b) every check of the ok-path is implied by Div ∧ Rel (∧ earlier checks)
            let mut hyps_b: Vec<Fm> = div_h.to_vec();
            hyps_b.extend(rel_h.iter().map(|x| x.0.clone()));
            let mut rw_b = rewriter_from(P, &hyps_b, false);
            for (k, atom) in pc.iter().enumerate() {
                match discharge(solver, &mut rw_b, &hyps_b, atom, sh, "c02.b") {
                    Verdict::Holds => {}
                    Verdict::Cex(m) => {
                        report(prog, mk_cex(&m, "b", format!("runner check #{k} fails although Rel and Div hold")), sh);
                        break;
                    }
                    Verdict::Undecided(why) => sh.undecided.push(json!({"program": prog.text(), "ob": format!("c02.b atom{k}"), "why": why})),
                }
                hyps_b.push(atom.clone());
                if let Fm::Eq(l, r) = atom {
                    rw_b.add_eq(*l, *r, false);
                }
            }
            // (c) PC_ok ∧ rows provable ⟹ Rel
            let mut hyps_c: Vec<Fm> = div_h.to_vec();
            hyps_c.extend(pc.iter().cloned());
            let at = &tr.alu_trace;
            for r in 0..at.op_kind.len() {
                if at.op_kind[r] == AluOpKind::BoolCheck {
                    let a = at.values[r][0];
                    hyps_c.push(fm_eq(a * (a - F::ONE), F::ZERO));
                }
            }
            let mut rw_c = rewriter_from(P, &hyps_c, false);
            for (f, name) in rel_h {
                match discharge(solver, &mut rw_c, &hyps_c, f, sh, "c02.c") {
                    Verdict::Holds => {}
                    Verdict::Cex(m) => {
                        report(prog, mk_cex(&m, "c", format!("run succeeds with provable rows although {name} is violated")), sh);
                        break;
                    }
                    Verdict::Undecided(why) => sh.undecided.push(json!({"program": prog.text(), "ob": format!("c02.c {name}"), "why": why})),
                }
            }
            // vacuity witness: Div ∧ Rel satisfiable (the ok path is reachable)
            let mut v: Vec<Fm> = div_h.to_vec();
            v.extend(rel_h.iter().map(|x| x.0.clone()));
            solver.label = format!("c02.reach {}", prog.text());
            solver.set_timeout(1000);
            let rr = solver.query(&v);
            solver.set_timeout(solver.timeout_ms);
            match rr {
                SatResult::Sat(_) => sh.bump("c02.reachability_witness_sat"),
                SatResult::Unsat => sh.bump("c02.unsatisfiable_programs"),
                SatResult::Unknown(_) => sh.bump("c02.reachability_unknown"),
            }
        }
    }
    solver.pop();
}

fn err_name(e: &CircuitError) -> String {
    let s = format!("{e:?}");
    s.split(|c: char| !c.is_alphanumeric()).next().unwrap_or("").to_string()
}

fn c03(prog: &Program, built: &Built<F>, solver: &mut Solver, sh: &mut Shard) {
    // free variable per witness slot and per public value; the runner is NOT used.
    let n = built.circuit.witness_count as usize;
    let base = with_arena(|a| a.var_names.len()) as u32;
    let wv: Vec<F> = (0..n).map(|i| F::var(format!("w{i}"), 1 + i as u64)).collect();
    let npub = prog.n_public();
    let pv: Vec<F> = (0..npub).map(|i| F::var(format!("P{i}"), 100 + i as u64)).collect();
    let w = |id: WitnessId| wv[id.0 as usize];
    let p = |k: usize| pv[k];
    let ops_rel = op_relations::<F>(&built.circuit.ops, &w, &p);
    let hyps: Vec<Fm> = ops_rel.iter().map(|(l, r, _)| fm_eq(*l, *r)).collect();
    let eff = effective_slots::<F>(prog, built, &w, &p);
    let slot = |i: usize| eff[i];
    let src = source_relations::<F>(prog, &slot, &p);
    let mut rw = rewriter_from(P, &hyps, true);
    solver.push();
    for (l, r, name) in &src {
        let goal = fm_eq(*l, *r);
        let t0 = std::time::Instant::now();
        let verdict = discharge(solver, &mut rw, &hyps, &goal, sh, "c03");
        if t0.elapsed().as_secs_f64() > 2.0 {
            sh.notes.push(format!("slow c03 {:.1}s {} :: {name} :: ops {:?}", t0.elapsed().as_secs_f64(), prog.text(), built.circuit.ops));
        }
        match verdict {
            Verdict::Holds => {}
            Verdict::Cex(m) => {
                let witness: Vec<u64> = (0..n).map(|i| m.get(&(base + i as u32)).copied().unwrap_or(0) % P).collect();
                let publics: Vec<u64> = (0..npub).map(|i| m.get(&(base + (n + i) as u32)).copied().unwrap_or(0) % P).collect();
                report(
                    prog,
                    Cex {
                        property: "C03",
                        kind: "dropped-relation".into(),
                        detail: name.clone(),
                        publics,
                        privates: vec![],
                        witness: Some(witness),
                    },
                    sh,
                );
                break;
            }
            Verdict::Undecided(why) => sh.undecided.push(json!({"program": prog.text(), "ob": format!("c03 {name}"), "why": why})),
        }
    }
    // vacuity: the op relations themselves are satisfiable
    solver.label = format!("c03.reach {}", prog.text());
    solver.set_timeout(1000);
    let rr = solver.query(&hyps);
    solver.set_timeout(solver.timeout_ms);
    match rr {
        SatResult::Sat(_) => sh.bump("c03.reachability_witness_sat"),
        SatResult::Unsat => sh.bump("c03.ops_unsatisfiable"),
        SatResult::Unknown(_) => sh.bump("c03.reachability_unknown"),
    }
    solver.pop();
}

/// Classify a confirmed counterexample by role (not by input) for the known-findings file.
fn signature(prog: &Program, cex: &Cex) -> String {
    let built = build_program::<BabyBear>(prog).ok();
    let has_rewrite = built.as_ref().map(|b| b.circuit.witness_rewrite.is_some()).unwrap_or(false);
    let n_horner_stmts = prog.stmts.iter().filter(|s| matches!(s, Stmt::Horner(..))).count();
    let n_horner_ops = built
        .as_ref()
        .map(|b| b.circuit.ops.iter().filter(|o| o.is_alu_kind(AluOpKind::HornerAcc)).count())
        .unwrap_or(0);
    let n_muladd_fused = built
        .as_ref()
        .map(|b| {
            b.circuit
                .ops
                .iter()
                .filter(|o| matches!(o, Op::Alu { kind: AluOpKind::MulAdd, intermediate_out: Some(_), .. }))
                .count()
        })
        .unwrap_or(0);
    let role = if n_horner_ops < n_horner_stmts && has_rewrite && cex.detail.contains("horner") {
        "horner-dedup"
    } else if has_rewrite {
        "alu-dedup"
    } else if n_muladd_fused > 0 {
        "muladd-fusion"
    } else {
        "other"
    };
    format!("{}/{}:{}", cex.property, cex.kind, role)
}

fn report(prog: &Program, cex: Cex, sh: &mut Shard) {
    // replay natively before reporting
    let (confirmed, replay_info) = if cex.property == "C02" {
        let nr = native_c02(prog, &cex.publics, &cex.privates);
        let ok = match cex.kind.as_str() {
            "a" => nr.build_err.is_none() && nr.run_err.is_none() && nr.div_ok && !nr.mismatches.is_empty(),
            "b" => nr.build_err.is_none() && nr.run_err.is_some() && nr.rel_holds && nr.div_ok,
            "c" => nr.build_err.is_none() && nr.run_err.is_none() && !nr.rel_holds && nr.div_ok && nr.rows_ok,
            _ => false,
        };
        (
            ok,
            json!({"run_err": nr.run_err, "build_err": nr.build_err, "mismatches": nr.mismatches, "rel_holds": nr.rel_holds, "div_ok": nr.div_ok, "rows_ok": nr.rows_ok}),
        )
    } else {
        match native_c03(prog, &cex.publics, cex.witness.as_deref().unwrap_or(&[])) {
            Ok((ops_ok, failing)) => (ops_ok && !failing.is_empty(), json!({"ops_relations_hold": ops_ok, "failing_source_relations": failing})),
            Err(e) => (false, json!({"build_err": e})),
        }
    };
    let sig = signature(prog, &cex);
    let v = json!({
        "property": cex.property,
        "kind": cex.kind,
        "detail": cex.detail,
        "signature": sig,
        "program": prog,
        "program_text": prog.text(),
        "publics": cex.publics,
        "privates": cex.privates,
        "witness": cex.witness,
        "confirmed_by_native_replay": confirmed,
        "replay": replay_info,
    });
    if confirmed {
        sh.bump(&format!("{}.violations_confirmed", cex.property.to_lowercase()));
        sh.violations.push(v);
    } else {
        sh.bump(&format!("{}.cex_not_reproduced", cex.property.to_lowercase()));
        sh.undecided.push(json!({"non_reproducing_counterexample": v}));
    }
}

fn replay_file(path: &str) -> i32 {
    let v: Value = serde_json::from_str(&std::fs::read_to_string(path).expect("read replay")).expect("json");
    let prog: Program = serde_json::from_value(v["program"].clone()).expect("program");
    let publics: Vec<u64> = serde_json::from_value(v["publics"].clone()).unwrap_or_default();
    let privates: Vec<u64> = serde_json::from_value(v["privates"].clone()).unwrap_or_default();
    println!("program: {}", prog.text());
    if v["property"] == "C02" {
        let nr = native_c02(&prog, &publics, &privates);
        println!(
            "native run: build_err={:?} run_err={:?} rel_holds={} div_ok={} rows_ok={} mismatches(value, slot, denotation)={:?}",
            nr.build_err, nr.run_err, nr.rel_holds, nr.div_ok, nr.rows_ok, nr.mismatches
        );
        let bad = match v["kind"].as_str().unwrap_or("") {
            "a" => nr.run_err.is_none() && !nr.mismatches.is_empty(),
            "b" => nr.run_err.is_some() && nr.rel_holds && nr.div_ok,
            "c" => nr.run_err.is_none() && !nr.rel_holds && nr.rows_ok,
            _ => false,
        };
        println!("reproduced: {bad}");
        if bad { 1 } else { 0 }
    } else {
        let witness: Vec<u64> = serde_json::from_value(v["witness"].clone()).unwrap_or_default();
        match native_c03(&prog, &publics, &witness) {
            Ok((ops_ok, failing)) => {
                println!("forged witness satisfies all emitted op relations: {ops_ok}; failing source relations: {failing:?}");
                if ops_ok && !failing.is_empty() { 1 } else { 0 }
            }
            Err(e) => {
                println!("build error: {e}");
                0
            }
        }
    }
}
