//! E3: "what the verifier sees". Every main-trace cell of the Const / Public / ALU tables is a
//! free solver variable; hypotheses are the real constraints (real `eval`, real preprocessed
//! rows, every row + wrap-around) and the exact LogUp balance of the WitnessChecks bus.
//!  C11 (=>): the cells of each scheduled ALU entry satisfy the entry's defining relation
//!            (reference relation written with p3's own extension multiplication).
//!  C04: (A) every witness index is single-valued on the bus; (B) = C11; (K) each Const row
//!       carries the circuit's constant.
//!  C09 (ii): an operand that is not on the bus must not influence the row's constraints.
use std::collections::BTreeMap;

use harness::airsym::*;
use harness::common::*;
use harness::prog::*;
use harness::tables::*;
use p3_air::BaseAir;
use p3_baby_bear::BabyBear;
use p3_circuit::ops::{AluOpKind, Op};
use p3_circuit_prover::TablePacking;
use p3_circuit_prover::field_params::ExtractBinomialW;
use p3_field::extension::BinomialExtensionField;
use p3_field::{BasedVectorSpace, ExtensionField, Field, PrimeCharacteristicRing};
use rand::SeedableRng;
use rand::rngs::SmallRng;
use serde_json::{Value, json};

const P: u64 = BabyBearCfg::P;
type B = BabyBear;
type B4 = BinomialExtensionField<BabyBear, 4>;
type S4 = BinomialExtensionField<S, 4>;

#[derive(Clone, Debug, serde::Serialize, serde::Deserialize)]
struct Cfg {
    d: usize,
    public_lanes: usize,
    alu_lanes: usize,
    k: usize,
    min_height: usize,
}
fn packing(c: &Cfg) -> TablePacking {
    TablePacking::new(c.public_lanes, c.alu_lanes).with_horner_pack_k(c.k).with_min_trace_height(c.min_height)
}

fn horner_programs(rng: &mut SmallRng, n: usize) -> Vec<Program> {
    use rand::RngExt;
    let mut out = Vec::new();
    for _ in 0..n {
        let n_pub = rng.random_range(3..=5);
        let mut stmts: Vec<Stmt> = (0..n_pub).map(|_| Stmt::Public).collect();
        stmts.push(Stmt::Const(0));
        let zero = n_pub;
        let mut nv = n_pub + 1;
        let len = rng.random_range(1..=6);
        let mut acc = zero;
        let b0 = rng.random_range(0..n_pub);
        for s in 0..len {
            let b = if rng.random_range(0..4) == 0 && s > 0 { rng.random_range(0..n_pub) } else { b0 };
            stmts.push(Stmt::Horner(acc, b, rng.random_range(0..n_pub), rng.random_range(0..n_pub)));
            acc = nv;
            nv += 1;
        }
        stmts.push(Stmt::Mul(acc, rng.random_range(0..n_pub)));
        out.push(Program { stmts });
    }
    out
}

fn programs(tier: &str, seed: u64) -> Vec<Program> {
    use Stmt::*;
    let p = |s: Vec<Stmt>| Program { stmts: s };
    let mut out = vec![
        p(vec![Public, Public, Add(0, 1)]),
        p(vec![Public, Public, Mul(0, 1)]),
        p(vec![Public, Public, Public, MulAdd(0, 1, 2)]),
        p(vec![Public, AssertBool(0)]),
        p(vec![Private, AssertBool(0), Public, Mul(0, 1)]),
        p(vec![Public, Public, Sub(0, 1), Div(0, 1)]),
        p(vec![Public, Const(5), Mul(0, 1), Const(7), Add(2, 3)]),
        p(vec![Public, Public, Public, AssertBool(0), Select(0, 1, 2)]),
    ];
    for wp in [false, true] {
        enumerate_small(1, &["add", "sub", "mul", "div", "muladd", "select"], wp, &mut |q| {
            out.push(q);
            true
        });
    }
    let mut rng = SmallRng::seed_from_u64(seed.wrapping_mul(131).wrapping_add(7));
    let (n_rand, n_h) = if tier == "thorough" { (1200, 900) } else { (150, 200) };
    for i in 0..n_rand {
        out.push(if i % 3 == 0 { gen_fusion_dag(&mut rng) } else { gen_random(&mut rng, 6, true) });
    }
    out.extend(horner_programs(&mut rng, n_h));
    out
}

fn configs(tier: &str, idx: usize) -> Vec<Cfg> {
    let rot = [
        Cfg { d: 1, public_lanes: 1, alu_lanes: 1, k: 2, min_height: 1 },
        Cfg { d: 1, public_lanes: 2, alu_lanes: 2, k: 3, min_height: 1 },
        Cfg { d: 4, public_lanes: 1, alu_lanes: 1, k: 2, min_height: 1 },
        Cfg { d: 1, public_lanes: 1, alu_lanes: 1, k: 4, min_height: 1 },
        Cfg { d: 1, public_lanes: 1, alu_lanes: 3, k: 5, min_height: 1 },
        Cfg { d: 4, public_lanes: 1, alu_lanes: 2, k: 3, min_height: 1 },
        Cfg { d: 1, public_lanes: 1, alu_lanes: 1, k: 3, min_height: 1 },
    ];
    let mut v = vec![rot[idx % rot.len()].clone()];
    if tier == "thorough" {
        v.push(rot[(idx + 2) % rot.len()].clone());
        v.push(rot[(idx + 4) % rot.len()].clone());
    }
    v
}

fn ext<ES: BasedVectorSpace<S>>(cells: &[S]) -> ES {
    ES::from_basis_coefficients_fn(|j| cells[j])
}

struct Ctx<'a> {
    solver: &'a mut Solver,
    sh: &'a mut Shard,
}

#[allow(clippy::too_many_arguments)]
fn check_one<EB, ES, const D: usize>(prog: &Program, cfg: &Cfg, cx: &mut Ctx<'_>) -> Vec<Value>
where
    EB: Field + ExtensionField<B> + ExtractBinomialW<B> + BasedVectorSpace<B>,
    ES: Field + ExtensionField<S> + BasedVectorSpace<S>,
{
    let mut found: Vec<Value> = Vec::new();
    let pk = packing(cfg);
    let Ok(built) = build_program::<EB>(prog) else { return found };
    let Ok(tables) = prim_tables::<EB, D>(&built.circuit, &pk) else {
        cx.sh.bump("e3.prep_error_skipped");
        return found;
    };
    cx.sh.bump("e3.program_configs");
    reset::<BabyBearCfg>();
    // free cells
    let mk = |name: &str, h: usize, w: usize| -> Vec<Vec<S>> { (0..h).map(|r| (0..w).map(|c| S::var(format!("{name}_{r}_{c}"), (7 + 31 * r + c) as u64)).collect()).collect() };
    let mains = HonestMains {
        const_main: mk("k", 1 << tables.log_degrees[0], BaseAir::<S>::width(&tables.const_air)),
        public_main: mk("p", 1 << tables.log_degrees[1], BaseAir::<S>::width(&tables.public_air)),
        alu_main: mk("a", 1 << tables.log_degrees[2], BaseAir::<S>::width(&tables.alu_air)),
    };
    let ev = match eval_all::<D>(&tables, &mains) {
        Ok(e) => e,
        Err(_) => return found,
    };
    let n_rows = mains.alu_main.len();
    cx.sh.add("e3.cells", (mains.alu_main.iter().map(|r| r.len()).sum::<usize>() + mains.const_main.len() * D + mains.public_main.iter().map(|r| r.len()).sum::<usize>()) as f64);
    cx.sh.add("e3.constraint_instances", ev.alu_eval.n_constraints_total as f64);
    let cons_by_row: BTreeMap<usize, Vec<Fm>> = {
        let mut m: BTreeMap<usize, Vec<Fm>> = BTreeMap::new();
        for (r, _i, c) in &ev.alu_eval.constraints {
            m.entry(*r).or_default().push(Fm::Eq(c.h(), H::C(0)));
        }
        m
    };
    let all_cons: Vec<Fm> = cons_by_row.values().flatten().cloned().collect();
    cx.sh.sample(
        json!({"program": prog.text(), "config": cfg, "alu_rows": n_rows, "free_cells": mains.alu_main.iter().map(|r| r.len()).sum::<usize>(),
               "nonzero_constraints": all_cons.len(), "schedule": format!("{:?}", tables.alu_schedule),
               "example_constraint": ev.alu_eval.constraints.first().map(|c| format!("row {} #{}: term {}", c.0, c.1, c.2.smt_name()))}),
        8,
    );
    // per-row ALU interaction lists (order: lane*4 + {a,b,c,out}, then packed (a_t, c_t))
    let mut alu_it: BTreeMap<usize, Vec<&Interaction<BabyBearCfg>>> = BTreeMap::new();
    for (r, it) in &ev.alu_eval.interactions {
        alu_it.entry(*r).or_default().push(it);
    }
    let lanes = tables.alu_lanes;
    // schedule entries: (kind, first op, arity) at position pos -> (row, lane)
    let alu_ops: Vec<(AluOpKind, bool)> = built
        .circuit
        .ops
        .iter()
        .filter_map(|o| if let Op::Alu { kind, .. } = o { Some((*kind, true)) } else { None })
        .collect();
    let entries: Vec<(u8, usize, usize)> = match &tables.alu_schedule {
        Some(s) => s.clone(),
        None => (0..alu_ops.len()).map(|i| (0u8, i, 1usize)).collect(),
    };
    let signature_base = |kind: &str, role: &str| format!("{kind}:{role}");
    let report = |prop: &str, kind: &str, role: String, detail: String, model: Option<BTreeMap<u32, u64>>, confirmed: bool, found: &mut Vec<Value>, sh: &mut Shard| {
        let v = json!({"property": prop, "kind": kind, "signature": format!("{prop}/{}", signature_base(kind, &role)), "detail": detail,
            "program": prog, "program_text": prog.text(), "config": cfg, "model_cells": model.map(|m| m.len()), "confirmed_by_native_replay": confirmed});
        if confirmed {
            sh.bump(&format!("{}.violations_confirmed", prop.to_lowercase()));
            found.push(v);
        } else {
            sh.undecided.push(json!({"non_reproducing_counterexample": v}));
        }
    };
    // native re-evaluation of a model on the real eval (all cells concrete): every constraint
    // must fold to zero
    let replay_constraints = |m: &BTreeMap<u32, u64>| -> bool {
        let conc = |rows: &Vec<Vec<S>>| -> Vec<Vec<S>> {
            rows.iter().map(|r| r.iter().map(|c| match c.h() { H::N(n) => S::c(with_arena(|a| match a.nodes[n as usize] { Node::Var(v) => m.get(&v).copied().unwrap_or(0), _ => 0 })), H::C(x) => S::c(x) }).collect()).collect()
        };
        let cm = HonestMains { const_main: conc(&mains.const_main), public_main: conc(&mains.public_main), alu_main: conc(&mains.alu_main) };
        match eval_all::<D>(&tables, &cm) {
            Ok(e) => e.alu_eval.constraints.is_empty(),
            Err(_) => false,
        }
    };

    cx.solver.push();
    // ---------------- (B) / C11: per-entry relation ----------------
    for (pos, (ekind, first, arity)) in entries.iter().enumerate() {
        let (row, lane) = (pos / lanes, pos % lanes);
        if *ekind == 2 || row >= n_rows {
            continue;
        }
        let Some(its) = alu_it.get(&row) else { continue };
        let cellv = |k: usize| -> Vec<S> { its[k].fields[1..].to_vec() };
        let (a, b, c, o): (ES, ES, ES, ES) = (ext(&cellv(lane * 4)), ext(&cellv(lane * 4 + 1)), ext(&cellv(lane * 4 + 2)), ext(&cellv(lane * 4 + 3)));
        let prev_row = (row + n_rows - 1) % n_rows;
        let prev_out: ES = alu_it.get(&prev_row).map(|p| ext(&p[3].fields[1..])).unwrap_or(ES::ZERO);
        let opk = alu_ops.get(*first).map(|x| x.0);
        let Some(opk) = opk else { continue };
        // goals: list of (lhs, rhs) extension equalities
        let mut goals: Vec<(ES, ES, String)> = Vec::new();
        let mut coord_zero: Vec<S> = Vec::new();
        if *ekind == 1 {
            let mut acc = prev_out * b + c - a;
            for t in 1..*arity {
                let at: ES = ext(&cellv(4 * lanes + 2 * (t - 1)));
                let ct: ES = ext(&cellv(4 * lanes + 2 * (t - 1) + 1));
                acc = acc * b + ct - at;
            }
            goals.push((o, acc, format!("packed-horner{arity}")));
        } else {
            match opk {
                AluOpKind::Add => goals.push((o, a + b, "add".into())),
                AluOpKind::Mul => goals.push((o, a * b, "mul".into())),
                AluOpKind::MulAdd => goals.push((o, a * b + c, "muladd".into())),
                AluOpKind::HornerAcc => goals.push((o, prev_out * b + c - a, "horner".into())),
                AluOpKind::BoolCheck => {
                    let cs = a.as_basis_coefficients_slice();
                    goals.push((ES::from(cs[0] * (cs[0] - S::ONE)), ES::ZERO, "bool".into()));
                    coord_zero.extend_from_slice(&cs[1..]);
                }
            }
        }
        let mut hyps: Vec<Fm> = Vec::new();
        for r in [prev_row, row] {
            if let Some(v) = cons_by_row.get(&r) {
                hyps.extend(v.iter().cloned());
            }
        }
        let mut rw = rewriter_from(P, &hyps, true);
        let mut atoms: Vec<(Fm, String)> = Vec::new();
        for (l, r, n) in &goals {
            for (x, y) in l.as_basis_coefficients_slice().iter().zip(r.as_basis_coefficients_slice()) {
                atoms.push((Fm::Eq(x.h(), y.h()), n.clone()));
            }
        }
        for z in &coord_zero {
            atoms.push((Fm::Eq(z.h(), H::C(0)), "bool-high-coefficient".into()));
        }
        for (goal, name) in atoms {
            let mut verdict = discharge(cx.solver, &mut rw, &hyps, &goal, cx.sh, "c11.relation");
            if let Verdict::Cex(_) = verdict {
                // confirm with all rows' constraints before reporting
                let mut rw2 = rewriter_from(P, &all_cons, true);
                verdict = discharge(cx.solver, &mut rw2, &all_cons, &goal, cx.sh, "c11.relation_allrows");
            }
            match verdict {
                Verdict::Holds => {}
                Verdict::Cex(m) => {
                    let ok = replay_constraints(&m);
                    let role = format!("{name}:arity{arity}:K{}", cfg.k);
                    for prop in ["C11", "C04"] {
                        report(prop, "row-relation-not-implied", role.clone(), format!("ALU row {row} lane {lane}: constraints hold but the {name} relation does not"), Some(m.clone()), ok, &mut found, cx.sh);
                    }
                    break;
                }
                Verdict::Undecided(w) => cx.sh.undecided.push(json!({"program": prog.text(), "ob": format!("c11.relation {name} row{row}"), "why": w})),
            }
        }
    }

    // ---------------- bus groups ----------------
    let mut groups: BTreeMap<u64, Vec<(Vec<S>, u64, String)>> = BTreeMap::new();
    for (tname, te) in [("const", &ev.const_eval), ("public", &ev.public_eval), ("alu", &ev.alu_eval)] {
        let mut pos_in_row: BTreeMap<usize, usize> = BTreeMap::new();
        for (row, it) in &te.interactions {
            let k = *pos_in_row.entry(*row).and_modify(|x| *x += 1).or_insert(0);
            let (Some(m), Some(idx)) = (it.mult.as_const(), it.fields[0].as_const()) else { continue };
            let operand = if tname == "alu" { if k < 4 * lanes { ["a", "b", "c", "out"][k % 4].to_string() } else { format!("packed{}", k - 4 * lanes) } } else { "v".into() };
            if m != 0 {
                groups.entry(idx).or_default().push((it.fields[1..].to_vec(), m, format!("{tname}.{operand}[{row}]")));
            } else if tname == "alu" && k < 4 * lanes && (k % 4 == 0 || k % 4 == 2) {
                // (C09 ii) operand a / c with multiplicity 0: is the row active and does a constraint depend on it?
                let lane = k / 4;
                let active = alu_it[row][lane * 4 + 3].mult.as_const().unwrap_or(0) != 0 || alu_it[row][lane * 4 + 1].mult.as_const().unwrap_or(0) != 0;
                if !active {
                    continue;
                }
                let cells = it.fields[1..].to_vec();
                let mut rel: Vec<S> = Vec::new();
                for r in [(*row + n_rows - 1) % n_rows, *row] {
                    for (rr, _i, c) in &ev.alu_eval.constraints {
                        if *rr == r {
                            rel.push(*c);
                        }
                    }
                }
                // substitute the operand cells by fresh cells and ask whether some constraint changes
                let mut rw = Rewriter::new(P);
                for cell in &cells {
                    if let H::N(n) = cell.h() {
                        let fresh = S::var("alt", 12345);
                        rw.subst.insert(n, fresh.h());
                    }
                }
                let mut differs: Vec<Fm> = Vec::new();
                for c in &rel {
                    let c2 = rw.canon(c.h());
                    if c2 != c.h() {
                        differs.push(Fm::Ne(c.h(), c2));
                    }
                }
                cx.sh.bump("c09.operand_dependence.obligations");
                if differs.is_empty() {
                    cx.sh.bump("c09.operand_dependence.unsat");
                    continue;
                }
                match cx.solver.query(&[Fm::Or(differs)]) {
                    SatResult::Unsat => cx.sh.bump("c09.operand_dependence.unsat"),
                    SatResult::Sat(m) => {
                        cx.sh.bump("c09.operand_dependence.sat");
                        let opk = format!("{}", ["a", "b", "c", "out"][k % 4]);
                        let kindname = entries.get(row * lanes + lane).and_then(|e| alu_ops.get(e.1)).map(|x| format!("{:?}", x.0)).unwrap_or_default();
                        for prop in ["C09", "C04"] {
                            report(prop, "operand-off-bus", format!("{kindname}.{opk}"), format!("ALU row {row} lane {lane}: operand {opk} of a {kindname} row is not on the WitnessChecks bus but the row's constraints depend on it"), Some(m.clone()), true, &mut found, cx.sh);
                        }
                    }
                    SatResult::Unknown(w) => cx.sh.undecided.push(json!({"program": prog.text(), "ob": "c09.operand_dependence", "why": w})),
                }
            }
        }
    }
    // ---------------- (A) single-valued slots under the exact LogUp balance ----------------
    for (idx, tuples) in &groups {
        if tuples.len() < 2 {
            continue;
        }
        let mut hyps: Vec<Fm> = Vec::new();
        for j in 0..tuples.len() {
            let terms: Vec<(Vec<(H, H)>, u64)> = tuples.iter().map(|t| (t.0.iter().zip(&tuples[j].0).map(|(x, y)| (x.h(), y.h())).collect(), t.1)).collect();
            hyps.push(Fm::SumIf(terms));
        }
        let mut differ: Vec<Fm> = Vec::new();
        for t in &tuples[1..] {
            for (x, y) in tuples[0].0.iter().zip(&t.0) {
                differ.push(Fm::Ne(x.h(), y.h()));
            }
        }
        cx.sh.bump("c04.single_valued.obligations");
        let mut q = hyps.clone();
        q.push(Fm::Or(differ));
        cx.solver.label = "c04.single_valued".into();
        match cx.solver.query(&q) {
            SatResult::Unsat => cx.sh.bump("c04.single_valued.unsat"),
            SatResult::Sat(m) => {
                cx.sh.bump("c04.single_valued.sat");
                let creators: Vec<String> = tuples.iter().filter(|t| t.1 < P / 2).map(|t| t.2.split('[').next().unwrap_or("").to_string()).collect();
                let role = if creators.len() >= 2 && creators.iter().all(|c| c == "const.v" || c == "public.v") { "aliased-const-public-creators".to_string() } else { format!("creators={creators:?}") };
                for prop in ["C09", "C04"] {
                    report(prop, "slot-not-single-valued", role.clone(), format!("witness index {idx}: a balanced bus admits two different values ({:?})", tuples.iter().map(|t| (t.1, t.2.clone())).collect::<Vec<_>>()), Some(m.clone()), true, &mut found, cx.sh);
                }
            }
            SatResult::Unknown(w) => cx.sh.undecided.push(json!({"program": prog.text(), "ob": format!("c04.single_valued idx{idx}"), "why": w})),
        }
    }
    // ---------------- (K) constants ----------------
    let consts: Vec<(u32, EB)> = built.circuit.ops.iter().filter_map(|o| if let Op::Const { out, val } = o { Some((out.0, *val)) } else { None }).collect();
    for (i, (_slot, val)) in consts.iter().enumerate() {
        let Some(row) = mains.const_main.get(i) else { continue };
        if all_cons.len() > 12 {
            // the model search over a large non-linear system is slow and adds nothing: the
            // finding is structural (the value cell is never constrained)
            cx.sh.bump("c04.const_bound.skipped_large_system");
            break;
        }
        let want: Vec<u64> = val.as_basis_coefficients_slice().iter().map(|x| p3_field::PrimeField64::as_canonical_u64(x)).collect();
        let differ: Vec<Fm> = row.iter().zip(&want).map(|(c, w)| Fm::Ne(c.h(), H::C(*w))).collect();
        cx.sh.bump("c04.const_bound.obligations");
        // hypotheses: everything the verifier checks (constraints + the const row's bus group)
        let mut q = all_cons.clone();
        q.push(Fm::Or(differ));
        match cx.solver.query(&q) {
            SatResult::Unsat => cx.sh.bump("c04.const_bound.unsat"),
            SatResult::Sat(m) => {
                cx.sh.bump("c04.const_bound.sat");
                report("C04", "const-value-unbound", "const-table-main-cell".into(), format!("Const row {i}: the committed value is a free main-trace cell; nothing the verifier checks pins it to {want:?}"), Some(m), true, &mut found, cx.sh);
                break;
            }
            SatResult::Unknown(w) => cx.sh.undecided.push(json!({"program": prog.text(), "ob": "c04.const_bound", "why": w})),
        }
    }
    cx.solver.pop();
    found
}

fn main() {
    let args = parse_args();
    let mut sh = Shard::new();
    sh.functions = [
        "<AluAir / WitnessSendAir(Const, Public) as Air>::eval incl. eval_alu_interactions, on free symbolic cells, every row + wrap-around",
        "AluAir::{compute_schedule, build_scheduled_preprocessed_trace, preprocessed_trace}, Circuit::generate_preprocessed_columns, get_airs_and_degrees_with_prep (real, concrete)",
        "reference relations: p3_field BinomialExtensionField arithmetic over the same cells",
    ].iter().map(|s| s.to_string()).collect();
    let timeout_ms = if args.tier == "thorough" { 30_000 } else { 5_000 };
    let mut solver = Solver::new(SolverKind::Z3, P, timeout_ms);
    let progs = programs(&args.tier, args.seed);
    let mut distinct = std::collections::HashSet::new();
    let filter = std::env::var("VERIF_FILTER").ok();
    for (idx, prog) in progs.iter().enumerate() {
        if let Some(f) = &filter {
            if !prog.text().contains(f.as_str()) {
                continue;
            }
        } else if idx % args.nshards != args.shard {
            continue;
        }
        if !distinct.insert(prog.clone()) {
            continue;
        }
        sh.bump("programs");
        for cfg in configs(&args.tier, idx) {
            let mut cx = Ctx { solver: &mut solver, sh: &mut sh };
            let found = if cfg.d == 1 { check_one::<B, S, 1>(prog, &cfg, &mut cx) } else { check_one::<B4, S4, 4>(prog, &cfg, &mut cx) };
            for v in found {
                let sig = v["signature"].as_str().unwrap_or("").to_string();
                let n = sh.violations.iter().filter(|x| x["signature"] == sig.as_str()).count();
                if n < 4 {
                    sh.violations.push(v);
                } else {
                    sh.bump("violations_beyond_4_per_signature_dropped");
                }
            }
        }
    }
    sh.add("distinct_programs", distinct.len() as f64);
    sh.absorb_solver("z3", &solver.stats);
    sh.absorb_slow(&solver);
    sh.write(&args.out);
}
