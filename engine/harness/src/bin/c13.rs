//! C13: translated AIR constraints evaluate like the native constraint folder.
//!
//! Random symbolic constraint DAGs (every leaf kind; shared sub-DAGs through `Arc`; base and
//! extension nodes) are compiled with the real `SymbolicCompiler::{compile_base, compile_ext}`
//! (shared caches, folded with alpha exactly as `RecursiveAir::eval_folded_circuit` does),
//! the circuit is compiled and run on symbolic column / challenge values, and the result is
//! compared with an independent recursive evaluation of the same DAG folded like p3's
//! `VerifierConstraintFolder::assert_zero` (acc = acc*alpha + c). z3 decides equality for all
//! variable values.
use hashbrown::HashMap;
use harness::common::*;
use p3_air::{BaseEntry, BaseLeaf, ExtEntry, ExtLeaf, SymbolicExpression, SymbolicExpressionExt, SymbolicVariable, SymbolicVariableExt};
use p3_air::symbolic::SymbolicExpr;
use p3_circuit::symbolic::{ColumnsTargets, RowSelectorsTargets, SymbolicCompiler};
use p3_circuit::{CircuitBuilder, ExprId};
use p3_field::extension::BinomialExtensionField;
use p3_field::{BasedVectorSpace, PrimeCharacteristicRing};
use rand::rngs::SmallRng;
use rand::{RngExt, SeedableRng};
use serde_json::{Value, json};

type SF = SymBB;
type S4 = BinomialExtensionField<SF, 4>;
type BExpr = SymbolicExpression<SF>;
type EExpr = SymbolicExpressionExt<SF, S4>;
const P: u64 = BabyBearCfg::P;

// column layout of the random instances
const N_MAIN: usize = 3;
const N_PREP: usize = 2;
const N_PUB: usize = 2;
const N_PERIODIC: usize = 1;
const N_CH: usize = 2;
const N_PERM: usize = 2;
const N_PERMVAL: usize = 1;

fn base_leaf(rng: &mut SmallRng) -> BExpr {
    match rng.random_range(0..10) {
        0 => SymbolicExpr::Leaf(BaseLeaf::Variable(SymbolicVariable::new(BaseEntry::Main { offset: 0 }, rng.random_range(0..N_MAIN)))),
        1 => SymbolicExpr::Leaf(BaseLeaf::Variable(SymbolicVariable::new(BaseEntry::Main { offset: 1 }, rng.random_range(0..N_MAIN)))),
        2 => SymbolicExpr::Leaf(BaseLeaf::Variable(SymbolicVariable::new(BaseEntry::Preprocessed { offset: 0 }, rng.random_range(0..N_PREP)))),
        3 => SymbolicExpr::Leaf(BaseLeaf::Variable(SymbolicVariable::new(BaseEntry::Preprocessed { offset: 1 }, rng.random_range(0..N_PREP)))),
        4 => SymbolicExpr::Leaf(BaseLeaf::Variable(SymbolicVariable::new(BaseEntry::Public, rng.random_range(0..N_PUB)))),
        5 => SymbolicExpr::Leaf(BaseLeaf::Variable(SymbolicVariable::new(BaseEntry::Periodic, rng.random_range(0..N_PERIODIC)))),
        6 => SymbolicExpr::Leaf(BaseLeaf::IsFirstRow),
        7 => SymbolicExpr::Leaf(BaseLeaf::IsLastRow),
        8 => SymbolicExpr::Leaf(BaseLeaf::IsTransition),
        _ => SymbolicExpr::Leaf(BaseLeaf::Constant(SF::c([0u64, 1, 2, P - 1, 7][rng.random_range(0..5)]))),
    }
}

fn ext_leaf(rng: &mut SmallRng, pool_b: &[BExpr]) -> EExpr {
    match rng.random_range(0..7) {
        0 => SymbolicExpr::Leaf(ExtLeaf::ExtVariable(SymbolicVariableExt::new(ExtEntry::Challenge, rng.random_range(0..N_CH)))),
        1 => SymbolicExpr::Leaf(ExtLeaf::ExtVariable(SymbolicVariableExt::new(ExtEntry::Permutation { offset: 0 }, rng.random_range(0..N_PERM)))),
        2 => SymbolicExpr::Leaf(ExtLeaf::ExtVariable(SymbolicVariableExt::new(ExtEntry::Permutation { offset: 1 }, rng.random_range(0..N_PERM)))),
        3 => SymbolicExpr::Leaf(ExtLeaf::ExtVariable(SymbolicVariableExt::new(ExtEntry::PermutationValue, rng.random_range(0..N_PERMVAL)))),
        4 => SymbolicExpr::Leaf(ExtLeaf::ExtConstant(S4::from_basis_coefficients_fn(|j| SF::c((3 + 5 * j) as u64)))),
        _ => SymbolicExpr::Leaf(ExtLeaf::Base(pool_b[rng.random_range(0..pool_b.len())].clone())),
    }
}

/// Random DAG pool built with the real operator overloads of `SymbolicExpr` (they allocate
/// the `Arc` nodes and fold constants); later entries reuse earlier ones, so sub-DAGs are shared.
fn gen_instance(rng: &mut SmallRng, n_nodes: usize) -> (Vec<BExpr>, Vec<EExpr>, Vec<usize>, Vec<usize>) {
    let mut pb: Vec<BExpr> = (0..4).map(|_| base_leaf(rng)).collect();
    for _ in 0..n_nodes {
        let a = pb[rng.random_range(0..pb.len())].clone();
        let b = if rng.random_range(0..3) == 0 { base_leaf(rng) } else { pb[rng.random_range(0..pb.len())].clone() };
        let e = match rng.random_range(0..5) {
            0 => a + b,
            1 => a - b,
            2 => a * b,
            3 => -a,
            _ => a.clone() * b + a,
        };
        pb.push(e);
    }
    let mut pe: Vec<EExpr> = (0..4).map(|_| ext_leaf(rng, &pb)).collect();
    for _ in 0..n_nodes {
        let a = pe[rng.random_range(0..pe.len())].clone();
        let b = if rng.random_range(0..3) == 0 { ext_leaf(rng, &pb) } else { pe[rng.random_range(0..pe.len())].clone() };
        let e = match rng.random_range(0..6) {
            0 => a + b,
            1 => a - b,
            2 => a * b,
            3 => -a,
            4 => (-a.clone()) * b.clone() + (-a) * b,
            _ => {
                let m = (-a) * b;
                m.clone() + m
            }
        };
        pe.push(e);
    }
    let nb = rng.random_range(1..=3);
    let ne = rng.random_range(1..=3);
    let cb: Vec<usize> = (0..nb).map(|_| rng.random_range(pb.len() / 2..pb.len())).collect();
    let ce: Vec<usize> = (0..ne).map(|_| rng.random_range(pe.len() / 2..pe.len())).collect();
    (pb, pe, cb, ce)
}

struct Vals {
    main0: Vec<S4>,
    main1: Vec<S4>,
    prep0: Vec<S4>,
    prep1: Vec<S4>,
    publics: Vec<S4>,
    periodic: Vec<S4>,
    sels: [S4; 3],
    ch: Vec<S4>,
    perm0: Vec<S4>,
    perm1: Vec<S4>,
    permval: Vec<S4>,
    alpha: S4,
}

fn eval_b(e: &BExpr, v: &Vals) -> S4 {
    match e {
        SymbolicExpr::Leaf(l) => match l {
            BaseLeaf::Variable(x) => match x.entry {
                BaseEntry::Main { offset: 0 } => v.main0[x.index],
                BaseEntry::Main { .. } => v.main1[x.index],
                BaseEntry::Preprocessed { offset: 0 } => v.prep0[x.index],
                BaseEntry::Preprocessed { .. } => v.prep1[x.index],
                BaseEntry::Public => v.publics[x.index],
                BaseEntry::Periodic => v.periodic[x.index],
            },
            BaseLeaf::IsFirstRow => v.sels[0],
            BaseLeaf::IsLastRow => v.sels[1],
            BaseLeaf::IsTransition => v.sels[2],
            BaseLeaf::Constant(c) => S4::from(*c),
        },
        SymbolicExpr::Add { x, y, .. } => eval_b(x, v) + eval_b(y, v),
        SymbolicExpr::Sub { x, y, .. } => eval_b(x, v) - eval_b(y, v),
        SymbolicExpr::Mul { x, y, .. } => eval_b(x, v) * eval_b(y, v),
        SymbolicExpr::Neg { x, .. } => -eval_b(x, v),
    }
}
fn eval_e(e: &EExpr, v: &Vals) -> S4 {
    match e {
        SymbolicExpr::Leaf(l) => match l {
            ExtLeaf::Base(b) => eval_b(b, v),
            ExtLeaf::ExtVariable(x) => match x.entry {
                ExtEntry::Challenge => v.ch[x.index],
                ExtEntry::Permutation { offset: 0 } => v.perm0[x.index],
                ExtEntry::Permutation { .. } => v.perm1[x.index],
                ExtEntry::PermutationValue => v.permval[x.index],
            },
            ExtLeaf::ExtConstant(c) => *c,
        },
        SymbolicExpr::Add { x, y, .. } => eval_e(x, v) + eval_e(y, v),
        SymbolicExpr::Sub { x, y, .. } => eval_e(x, v) - eval_e(y, v),
        SymbolicExpr::Mul { x, y, .. } => eval_e(x, v) * eval_e(y, v),
        SymbolicExpr::Neg { x, .. } => -eval_e(x, v),
    }
}

fn main() {
    let args = parse_args();
    let mut sh = Shard::new();
    sh.functions = [
        "p3_circuit::symbolic::SymbolicCompiler::{compile_base, compile_ext}, ColumnsTargets::{resolve_base_var, resolve_ext_var} (shared caches, folded like RecursiveAir::eval_folded_circuit) + real compiler + runner (symbolic)",
        "reference: recursive evaluation of the same p3_air SymbolicExpr DAG folded like p3_uni_stark::VerifierConstraintFolder::assert_zero",
    ].iter().map(|s| s.to_string()).collect();
    let n = if args.tier == "thorough" { 3000 } else { 400 };
    let mut rng = SmallRng::seed_from_u64(args.seed.wrapping_mul(13).wrapping_add(13));
    let mut solver = Solver::new(SolverKind::Z3, P, if args.tier == "thorough" { 20_000 } else { 5_000 });
    let mut violations: Vec<Value> = Vec::new();
    let mut n_inst = 0usize;
    for k in 0..n {
        let n_nodes = if k % 5 == 0 { 10 } else { rng.random_range(2..=6) };
        let (pb, pe, cb, ce) = gen_instance(&mut rng, n_nodes);
        if k % args.nshards != args.shard {
            continue;
        }
        n_inst += 1;
        sh.bump("programs");
        reset::<BabyBearCfg>();
        let mut cnt = 0u64;
        let mut fresh = |name: &str| -> S4 {
            cnt += 1;
            let c = cnt;
            S4::from_basis_coefficients_fn(|j| SF::var(format!("{name}_{j}"), 3 + 7 * c + j as u64))
        };
        let vals = Vals {
            main0: (0..N_MAIN).map(|i| fresh(&format!("m0_{i}"))).collect(),
            main1: (0..N_MAIN).map(|i| fresh(&format!("m1_{i}"))).collect(),
            prep0: (0..N_PREP).map(|i| fresh(&format!("p0_{i}"))).collect(),
            prep1: (0..N_PREP).map(|i| fresh(&format!("p1_{i}"))).collect(),
            publics: (0..N_PUB).map(|i| S4::from(SF::var(format!("pub{i}"), 11 + i as u64))).collect(),
            periodic: (0..N_PERIODIC).map(|i| fresh(&format!("per{i}"))).collect(),
            sels: [fresh("first"), fresh("last"), fresh("trans")],
            ch: (0..N_CH).map(|i| fresh(&format!("ch{i}"))).collect(),
            perm0: (0..N_PERM).map(|i| fresh(&format!("q0_{i}"))).collect(),
            perm1: (0..N_PERM).map(|i| fresh(&format!("q1_{i}"))).collect(),
            permval: (0..N_PERMVAL).map(|i| fresh(&format!("pv{i}"))).collect(),
            alpha: fresh("alpha"),
        };
        // reference fold
        let mut acc_ref = S4::ZERO;
        for &i in &cb {
            acc_ref = acc_ref * vals.alpha + eval_b(&pb[i], &vals);
        }
        for &i in &ce {
            acc_ref = acc_ref * vals.alpha + eval_e(&pe[i], &vals);
        }
        // circuit
        let mut cbld = CircuitBuilder::<S4>::new();
        let mut inputs: Vec<S4> = Vec::new();
        let alloc = |cbld: &mut CircuitBuilder<S4>, vs: &[S4], inputs: &mut Vec<S4>| -> Vec<ExprId> {
            vs.iter().map(|v| { inputs.push(*v); cbld.public_input() }).collect()
        };
        let t_sels = alloc(&mut cbld, &vals.sels, &mut inputs);
        let t_ch = alloc(&mut cbld, &vals.ch, &mut inputs);
        let t_pub = alloc(&mut cbld, &vals.publics, &mut inputs);
        let t_q0 = alloc(&mut cbld, &vals.perm0, &mut inputs);
        let t_q1 = alloc(&mut cbld, &vals.perm1, &mut inputs);
        let t_pv = alloc(&mut cbld, &vals.permval, &mut inputs);
        let t_p0 = alloc(&mut cbld, &vals.prep0, &mut inputs);
        let t_p1 = alloc(&mut cbld, &vals.prep1, &mut inputs);
        let t_per = alloc(&mut cbld, &vals.periodic, &mut inputs);
        let t_m0 = alloc(&mut cbld, &vals.main0, &mut inputs);
        let t_m1 = alloc(&mut cbld, &vals.main1, &mut inputs);
        let t_alpha = alloc(&mut cbld, &[vals.alpha], &mut inputs)[0];
        let row_selectors = RowSelectorsTargets { is_first_row: t_sels[0], is_last_row: t_sels[1], is_transition: t_sels[2] };
        let columns = ColumnsTargets {
            challenges: &t_ch,
            public_values: &t_pub,
            permutation_local_values: &t_q0,
            permutation_next_values: &t_q1,
            permutation_values: &t_pv,
            local_prep_values: &t_p0,
            next_prep_values: &t_p1,
            periodic_values: &t_per,
            local_values: &t_m0,
            next_values: &t_m1,
        };
        let compiler = SymbolicCompiler::new(row_selectors, &columns);
        let mut acc = cbld.define_const(S4::ZERO);
        let mut base_cache = HashMap::new();
        for &i in &cb {
            let id = compiler.compile_base::<SF, S4>(&pb[i], &mut cbld, &mut base_cache);
            acc = cbld.mul_add(acc, t_alpha, id);
        }
        let mut ext_cache = HashMap::new();
        for &i in &ce {
            let id = compiler.compile_ext::<SF, S4>(&pe[i], &mut cbld, &mut base_cache, &mut ext_cache);
            acc = cbld.mul_add(acc, t_alpha, id);
        }
        let circuit = cbld.build().expect("build");
        let mut runner = circuit.runner();
        runner.set_public_inputs(&inputs).unwrap();
        let label = format!("instance {k}: {} base + {} ext constraints, {} nodes", cb.len(), ce.len(), n_nodes);
        let tr = match runner.run() {
            Ok(t) => t,
            Err(e) => {
                violations.push(json!({"property": "C13", "kind": "circuit-run-fails", "signature": "C13/circuit-run-fails", "detail": format!("{e:?}"), "program_text": label, "confirmed_by_native_replay": true}));
                continue;
            }
        };
        let got: S4 = *tr.witness_trace.get_value(circuit.expr_to_widx[&acc]).unwrap();
        sh.sample(json!({"instance": label, "circuit_ops": circuit.ops.len(), "constraint0": format!("{:?}", pe[ce[0]]).chars().take(300).collect::<String>()}), 6);
        let hyps: Vec<Fm> = events().iter().filter_map(event_fm).collect();
        let mut rw = rewriter_from(P, &hyps, false);
        solver.push();
        let gs: &[SF] = got.as_basis_coefficients_slice();
        let rs: &[SF] = acc_ref.as_basis_coefficients_slice();
        for (j, (g, r)) in gs.iter().zip(rs).enumerate() {
            match discharge(&mut solver, &mut rw, &hyps, &Fm::Eq(g.h(), r.h()), &mut sh, "c13") {
                Verdict::Holds => {}
                Verdict::Cex(_) => {
                    let differs = g.shadow() != r.shadow();
                    let has_ext_neg = format!("{:?}", ce.iter().map(|&i| &pe[i]).collect::<Vec<_>>()).contains("Neg");
                    let v = json!({"property": "C13", "kind": "folded-value-differs", "signature": format!("C13/folded-value-differs:{}", if has_ext_neg { "ext-with-neg" } else { "other" }),
                        "detail": format!("{label}: coordinate {j} of the folded circuit value differs from the native fold"), "program_text": label, "confirmed_by_native_replay": differs});
                    if differs {
                        sh.bump("c13.violations_confirmed");
                        violations.push(v);
                    } else {
                        sh.undecided.push(json!({"non_reproducing_counterexample": v}));
                    }
                    break;
                }
                Verdict::Undecided(w) => sh.undecided.push(json!({"program": label, "ob": format!("coord{j}"), "why": w})),
            }
        }
        solver.pop();
    }
    sh.add("distinct_programs", n_inst as f64);
    sh.absorb_solver("z3", &solver.stats);
    sh.violations = violations;
    sh.write(&args.out);
}
