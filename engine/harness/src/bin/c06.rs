//! C06 — sampled challenges are bound to the whole transcript in every ACCEPTED proof.
//!
//! Unlike C05 (honest witness generation), the prover is free here: the question is what the
//! constraint system forces. Per challenger configuration and history:
//!
//!  * the real `CircuitChallenger` builds the circuit, the real compiler lowers it, the real
//!    preprocessing (`get_airs_and_degrees_with_prep` + the Poseidon2 preprocessor plugin) yields
//!    the Poseidon table's preprocessed rows;
//!  * the Poseidon2 circuit AIR is instantiated over the symbolic field with those rows and its
//!    REAL `eval` runs on a main trace made of free variables: this yields every constraint and
//!    every bus interaction of every row (wrap-around included);
//!  * hypotheses for z3 = what an accepted proof guarantees:
//!      - the AIR's wiring constraints (those over permutation inputs, final outputs and the
//!        circuit columns: sponge chaining, zero capacity on chain starts, length tags, ...),
//!      - per row `outputs = P(inputs)` with P an uninterpreted permutation (this is the content of
//!        the inner Poseidon2 round constraints, assumed: p3's Poseidon2 AIR is not re-verified),
//!      - every bus tuple with non-zero multiplicity carries the value of its witness index
//!        (single-valued balanced bus: properties C04/C09),
//!      - the relation of every primitive op of the compiled circuit (C11);
//!    hint outputs, unexposed permutation outputs and all other cells stay free;
//!  * goal: each sampled challenge's witness value equals the native `DuplexChallenger` sample for
//!    the same observed values (same uninterpreted P).
//! `unsat` of the negated goal = the challenge is bound. A model = a way for the prover to deviate;
//! it is replayed with the real prover: the circuit is run with a permutation executor that returns
//! a wrong capacity, real traces are generated, `prove_all_tables` / `verify_all_tables` run, and the
//! finding is reported only if that proof verifies while the challenge differs from the native one.
use std::collections::{BTreeMap, BTreeSet, HashMap};
use std::sync::Arc;
use std::sync::atomic::{AtomicUsize, Ordering};

use harness::airsym::*;
use harness::common::*;
use p3_air::BaseAir;
use p3_baby_bear::{BabyBear, GenericPoseidon2LinearLayersBabyBear};
use p3_batch_stark::ProverData;
use p3_challenger::{CanObserve, CanSample, DuplexChallenger};
use p3_circuit::ops::{AluOpKind, Op, Poseidon2Config, generate_poseidon2_trace};
use p3_circuit::{CircuitBuilder, ExprId, WitnessId};
use p3_circuit_prover::batch_stark_prover::{BatchStarkProver, CircuitProverData, poseidon2_air_builders_d4, poseidon2_preprocessor, poseidon2_table_provers_d4};
use p3_circuit_prover::common::{CircuitTableAir, NpoPreprocessor, get_airs_and_degrees_with_prep};
use p3_circuit_prover::config::{self, BabyBearConfig};
use p3_circuit_prover::{ConstraintProfile, TablePacking};
use p3_field::extension::BinomialExtensionField;
use p3_field::{BasedVectorSpace, Field, PrimeCharacteristicRing, PrimeField64};
use p3_poseidon2_circuit_air::{BabyBearD1Width16, BabyBearD4Width16, Poseidon2CircuitAir};
use p3_recursion::challenger::CircuitChallenger;
use p3_recursion::traits::RecursiveChallenger;
use p3_symmetric::Permutation;
use serde_json::{Value, json};

type BB = BabyBear;
type E4 = BinomialExtensionField<BB, 4>;
type S = SymBB;
type S4 = BinomialExtensionField<S, 4>;
const P: u64 = BabyBearCfg::P;

type TwinD4 = Poseidon2CircuitAir<S, GenericPoseidon2LinearLayersBabyBear, 4, 16, 4, 2, 2, 7, 1, 4, 13, 4>;
type TwinD1 = Poseidon2CircuitAir<S, GenericPoseidon2LinearLayersBabyBear, 1, 16, 16, 8, 8, 7, 1, 4, 13, 1>;

fn sym_round_constants() -> p3_poseidon2_air::RoundConstants<S, 16, 4, 13> {
    let c = |x: BB| S::c(x.as_canonical_u64());
    p3_poseidon2_air::RoundConstants::new(
        p3_baby_bear::BABYBEAR_POSEIDON2_RC_16_EXTERNAL_INITIAL.map(|r| r.map(c)),
        p3_baby_bear::BABYBEAR_POSEIDON2_RC_16_INTERNAL.map(c),
        p3_baby_bear::BABYBEAR_POSEIDON2_RC_16_EXTERNAL_FINAL.map(|r| r.map(c)),
    )
}

/// observe n1, sample s1, observe n2, sample s2
#[derive(Clone, Copy, Debug)]
struct Hist {
    n1: usize,
    s1: usize,
    n2: usize,
    s2: usize,
}

fn histories(thorough: bool) -> Vec<Hist> {
    let mut v = vec![Hist { n1: 3, s1: 1, n2: 0, s2: 0 }, Hist { n1: 8, s1: 1, n2: 2, s2: 1 }, Hist { n1: 9, s1: 2, n2: 0, s2: 0 }, Hist { n1: 2, s1: 1, n2: 9, s2: 1 }];
    if thorough {
        v.extend([Hist { n1: 16, s1: 1, n2: 1, s2: 9 }, Hist { n1: 1, s1: 9, n2: 1, s2: 1 }, Hist { n1: 17, s1: 3, n2: 8, s2: 8 }]);
    }
    v
}

/// A permutation that returns a wrong capacity half from its `bad_call`-th invocation on
/// (the deviating executor of the replay).
#[derive(Clone)]
struct Deviating<Pm> {
    inner: Pm,
    calls: Arc<AtomicUsize>,
    bad_call: usize,
}
impl<Pm: Permutation<[BB; 16]>> Permutation<[BB; 16]> for Deviating<Pm> {
    fn permute_mut(&self, x: &mut [BB; 16]) {
        self.inner.permute_mut(x);
        let k = self.calls.fetch_add(1, Ordering::SeqCst);
        if k + 1 == self.bad_call {
            for y in x.iter_mut().skip(8) {
                *y = BB::from_u64(7);
            }
        }
    }
}
impl<Pm: Permutation<[BB; 16]>> p3_symmetric::CryptographicPermutation<[BB; 16]> for Deviating<Pm> {}

fn op_relations<EB: Field, T: Field>(ops: &[Op<EB>], conv: &dyn Fn(&EB) -> T, w: &dyn Fn(WitnessId) -> T, pv: &dyn Fn(usize) -> T) -> Vec<(T, T, String)> {
    let mut out = Vec::new();
    for (i, op) in ops.iter().enumerate() {
        match op {
            Op::Const { out: o, val } => out.push((w(*o), conv(val), format!("op{i}:const"))),
            Op::Public { out: o, public_pos } => out.push((w(*o), pv(*public_pos), format!("op{i}:public"))),
            Op::Alu { kind, a, b, c, out: o, intermediate_out } => match kind {
                AluOpKind::Add => out.push((w(*a) + w(*b), w(*o), format!("op{i}:add"))),
                AluOpKind::Mul => out.push((w(*a) * w(*b), w(*o), format!("op{i}:mul"))),
                AluOpKind::BoolCheck => {
                    out.push((w(*a) * (w(*a) - T::ONE), T::ZERO, format!("op{i}:bool")));
                    out.push((w(*o), w(*a), format!("op{i}:bool-out")));
                }
                AluOpKind::MulAdd => {
                    let cv = c.map(|c| w(c)).unwrap_or(T::ZERO);
                    out.push((w(*a) * w(*b) + cv, w(*o), format!("op{i}:muladd")));
                }
                AluOpKind::HornerAcc => {
                    let acc = intermediate_out.expect("horner acc");
                    let cv = c.map(|c| w(c)).unwrap_or(T::ZERO);
                    out.push((w(acc) * w(*b) + cv - w(*a), w(*o), format!("op{i}:horner")));
                }
            },
            Op::Hint { .. } | Op::NonPrimitiveOpWithExecutor { .. } => {}
        }
    }
    out
}

struct Built<EB: Field> {
    circuit: p3_circuit::Circuit<EB>,
    n_obs: usize,
    samples: Vec<ExprId>,
}

fn build_d4<Pm>(h: &Hist, perm: Pm) -> Result<Built<E4>, String>
where
    Pm: Permutation<[BB; 16]> + Clone + Send + Sync + 'static,
{
    let mut b = CircuitBuilder::<E4>::new();
    b.enable_poseidon2_perm::<BabyBearD4Width16, _>(generate_poseidon2_trace::<E4, BabyBearD4Width16>, perm);
    let mut chal = CircuitChallenger::<16, 8, Poseidon2Config>::new_babybear();
    let mut samples = Vec::new();
    let mut n_obs = 0;
    for (n, s) in [(h.n1, h.s1), (h.n2, h.s2)] {
        for _ in 0..n {
            let t = b.public_input();
            n_obs += 1;
            RecursiveChallenger::<BB, E4>::observe(&mut chal, &mut b, t);
        }
        for _ in 0..s {
            samples.push(RecursiveChallenger::<BB, E4>::sample(&mut chal, &mut b));
        }
    }
    // keep every sample alive on the bus: expose it through a public input equality
    for s in samples.clone() {
        let e = b.public_input();
        b.connect(s, e);
    }
    let circuit = b.build().map_err(|e| format!("build: {e:?}"))?;
    Ok(Built { circuit, n_obs, samples })
}

fn build_d1<Pm>(h: &Hist, perm: Pm) -> Result<Built<BB>, String>
where
    Pm: Permutation<[BB; 16]> + Clone + Send + Sync + 'static,
{
    let mut b = CircuitBuilder::<BB>::new();
    b.enable_poseidon2_perm_base::<BabyBearD1Width16, _>(generate_poseidon2_trace::<BB, BabyBearD1Width16>, perm);
    let mut chal = CircuitChallenger::<16, 8, Poseidon2Config>::new_babybear_base();
    let mut samples = Vec::new();
    let mut n_obs = 0;
    for (n, s) in [(h.n1, h.s1), (h.n2, h.s2)] {
        for _ in 0..n {
            let t = b.public_input();
            n_obs += 1;
            RecursiveChallenger::<BB, BB>::observe(&mut chal, &mut b, t);
        }
        for _ in 0..s {
            samples.push(RecursiveChallenger::<BB, BB>::sample(&mut chal, &mut b));
        }
    }
    for s in samples.clone() {
        let e = b.public_input();
        b.connect(s, e);
    }
    let circuit = b.build().map_err(|e| format!("build: {e:?}"))?;
    Ok(Built { circuit, n_obs, samples })
}

/// Everything the solver needs for one (configuration, history).
struct System {
    hyps: Vec<Fm>,
    /// (label, circuit-side value, native value)
    goals: Vec<(String, H, H)>,
    n_rows: usize,
    n_wiring: usize,
    n_inner_dropped: usize,
    n_bus: usize,
    n_prim: usize,
}

/// Generic part: given the twin AIR's evaluation on free rows, assemble hypotheses and goals.
#[allow(clippy::too_many_arguments)]
fn assemble<EB: Field, T: Field + BasedVectorSpace<S> + From<S>>(
    d: usize,
    hist: &Hist,
    built: &Built<EB>,
    conv: &dyn Fn(&EB) -> T,
    main: &[Vec<S>],
    cell_vars: &[Vec<u32>],
    perm_width: usize,
    te: &TableEval<BabyBearCfg>,
    sperm: &SymPerm<16>,
    n_active_rows: usize,
) -> Result<System, String> {
    let mut hyps: Vec<Fm> = Vec::new();
    // ---- wiring constraints ----
    let mut allowed: BTreeSet<u32> = BTreeSet::new();
    for row in cell_vars {
        for (c, v) in row.iter().enumerate() {
            if c < 16 || (c >= perm_width - 16) {
                allowed.insert(*v);
            }
        }
    }
    let (mut n_wiring, mut n_inner) = (0, 0);
    for (_r, _i, c) in &te.constraints {
        let vs = vars_of(&[c.h()]);
        if vs.iter().all(|v| allowed.contains(v)) {
            hyps.push(Fm::Eq(c.h(), H::C(0)));
            n_wiring += 1;
        } else {
            n_inner += 1;
        }
    }
    // ---- rows compute the permutation (assumed content of the dropped inner constraints) ----
    for row in main.iter() {
        let ins: [S; 16] = core::array::from_fn(|j| row[j]);
        let outs = sperm.permute(ins);
        for j in 0..16 {
            hyps.push(Fm::Eq(row[perm_width - 16 + j].h(), outs[j].h()));
        }
    }
    // ---- witness values ----
    let n_w = built.circuit.witness_count as usize;
    let wvars: Vec<T> = (0..n_w).map(|i| T::from_basis_coefficients_fn(|j| S::var(format!("w{i}_{j}"), 0))).collect();
    // ---- bus tuples of the Poseidon table ----
    let mut n_bus = 0;
    for (_r, it) in &te.interactions {
        let m = it.mult.as_const().ok_or("non-constant multiplicity")?;
        if m == 0 {
            continue;
        }
        let idx = it.fields[0].as_const().ok_or("non-constant bus index")? as usize;
        if idx % d != 0 {
            return Err(format!("bus index {idx} not a multiple of D={d}"));
        }
        let wid = idx / d;
        if wid >= n_w {
            return Err(format!("bus index {idx} beyond the witness"));
        }
        let cs = wvars[wid].as_basis_coefficients_slice();
        for j in 0..d {
            hyps.push(Fm::Eq(it.fields[1 + j].h(), cs[j].h()));
        }
        n_bus += 1;
    }
    // ---- primitive op relations ----
    let n_pub = built.circuit.public_flat_len;
    let pubs: Vec<S> = (0..n_pub).map(|i| S::var(format!("pub{i}"), 1 + (i as u64 * 7919) % (P - 1))).collect();
    let w = |id: WitnessId| wvars[id.0 as usize];
    let pv = |i: usize| T::from(pubs[i]);
    let rels = op_relations::<EB, T>(&built.circuit.ops, conv, &w, &pv);
    let n_prim = rels.len();
    for (l, r, _what) in rels {
        let (lc, rc) = (l.as_basis_coefficients_slice(), r.as_basis_coefficients_slice());
        for j in 0..lc.len() {
            hyps.push(Fm::Eq(lc[j].h(), rc[j].h()));
        }
    }
    // ---- hint outputs are base-field elements (the content of property C12; its known findings
    //      about unconstrained higher coordinates are not re-reported here) ----
    if d > 1 {
        for op in &built.circuit.ops {
            if let Op::Hint { outputs, .. } = op {
                for o in outputs {
                    let cs = wvars[o.0 as usize].as_basis_coefficients_slice();
                    for c in cs.iter().skip(1) {
                        hyps.push(Fm::Eq(c.h(), H::C(0)));
                    }
                }
            }
        }
    }
    // ---- native challenger on the observed symbols ----
    let mut native = DuplexChallenger::<S, SymPerm<16>, 16, 8>::new(sperm.clone());
    let mut goals = Vec::new();
    let mut k_obs = 0;
    let mut k_s = 0;
    for (n, s) in [(hist.n1, hist.s1), (hist.n2, hist.s2)] {
        for _ in 0..n {
            native.observe(pubs[k_obs]);
            k_obs += 1;
        }
        for _ in 0..s {
            let nv: S = native.sample();
            let wid = built.circuit.expr_to_widx[&built.samples[k_s]];
            let cs = wvars[wid.0 as usize].as_basis_coefficients_slice();
            goals.push((format!("sample#{k_s}"), cs[0].h(), nv.h()));
            for (j, c) in cs.iter().enumerate().skip(1) {
                goals.push((format!("sample#{k_s}:coordinate{j}-is-zero"), c.h(), H::C(0)));
            }
            k_s += 1;
        }
    }
    Ok(System { hyps, goals, n_rows: n_active_rows, n_wiring, n_inner_dropped: n_inner, n_bus, n_prim })
}

/// Free main trace for a twin AIR; returns (rows, var ids).
fn free_rows(height: usize, width: usize) -> (Vec<Vec<S>>, Vec<Vec<u32>>) {
    let mut rows = Vec::new();
    let mut ids = Vec::new();
    for r in 0..height {
        let mut row = Vec::with_capacity(width);
        let mut idr = Vec::with_capacity(width);
        for c in 0..width {
            let id = with_arena(|a| a.var_names.len() as u32);
            row.push(S::var(format!("p{r}_{c}"), 0));
            idr.push(id);
        }
        rows.push(row);
        ids.push(idr);
    }
    (rows, ids)
}

fn shadow_bb16() -> ShadowFn {
    let perm = p3_test_utils::baby_bear_params::default_babybear_poseidon2_16();
    Arc::new(move |xs: &[u64]| {
        let a: [BB; 16] = core::array::from_fn(|i| BB::from_u64(xs[i]));
        perm.permute(a).iter().map(|x| x.as_canonical_u64()).collect()
    })
}

fn system_d4(h: &Hist) -> Result<System, String> {
    let perm = p3_test_utils::baby_bear_params::default_babybear_poseidon2_16();
    let built = build_d4(h, perm)?;
    let packing = TablePacking::new(1, 1);
    let npo: Vec<Box<dyn NpoPreprocessor<BB>>> = vec![poseidon2_preprocessor::<BB>()];
    let (_airs, _prim, np) = get_airs_and_degrees_with_prep::<BabyBearConfig, E4, 4>(&built.circuit, &packing, &npo, &poseidon2_air_builders_d4::<BabyBearConfig>(), ConstraintProfile::Standard).map_err(|e| format!("prep: {e:?}"))?;
    let prep_raw = np.values().next().ok_or("no Poseidon table")?;
    let n_active = built.circuit.ops.iter().filter(|o| matches!(o, Op::NonPrimitiveOpWithExecutor { .. })).count();
    reset::<BabyBearCfg>();
    let prep: Vec<S> = prep_raw.iter().map(|x| S::c(x.as_canonical_u64())).collect();
    let twin = TwinD4::new_with_preprocessed(sym_round_constants(), prep).with_min_height(packing.min_trace_height());
    let prows = matrix_rows(&BaseAir::<S>::preprocessed_trace(&twin).ok_or("no preprocessed trace")?);
    let width = BaseAir::<S>::width(&twin);
    let (main, ids) = free_rows(prows.len(), width);
    let te = eval_table::<BabyBearCfg, _>(&twin, &main, &prows);
    let sperm = SymPerm::<16>::new("perm", shadow_bb16());
    let conv = |v: &E4| -> S4 { let cs: &[BB] = v.as_basis_coefficients_slice(); S4::from_basis_coefficients_fn(|j| S::c(cs[j].as_canonical_u64())) };
    assemble::<E4, S4>(4, h, &built, &conv, &main, &ids, width - 2, &te, &sperm, n_active)
}

fn system_d1(h: &Hist) -> Result<System, String> {
    let perm = p3_test_utils::baby_bear_params::default_babybear_poseidon2_16();
    let built = build_d1(h, perm)?;
    let packing = TablePacking::new(1, 1);
    let npo: Vec<Box<dyn NpoPreprocessor<BB>>> = vec![poseidon2_preprocessor::<BB>()];
    let (_airs, _prim, np) = get_airs_and_degrees_with_prep::<BabyBearConfig, BB, 1>(&built.circuit, &packing, &npo, &[], ConstraintProfile::Standard).map_err(|e| format!("prep: {e:?}"))?;
    let prep_raw = np.values().next().ok_or("no Poseidon table")?;
    let n_active = built.circuit.ops.iter().filter(|o| matches!(o, Op::NonPrimitiveOpWithExecutor { .. })).count();
    reset::<BabyBearCfg>();
    let prep: Vec<S> = prep_raw.iter().map(|x| S::c(x.as_canonical_u64())).collect();
    let twin = TwinD1::new_with_preprocessed(sym_round_constants(), prep).with_min_height(packing.min_trace_height());
    let prows = matrix_rows(&BaseAir::<S>::preprocessed_trace(&twin).ok_or("no preprocessed trace")?);
    let width = BaseAir::<S>::width(&twin);
    let (main, ids) = free_rows(prows.len(), width);
    let te = eval_table::<BabyBearCfg, _>(&twin, &main, &prows);
    let sperm = SymPerm::<16>::new("perm", shadow_bb16());
    let conv = |v: &BB| -> S { S::c(v.as_canonical_u64()) };
    assemble::<BB, S>(1, h, &built, &conv, &main, &ids, width - 2, &te, &sperm, n_active)
}

/// Replay of the D=4 finding with the real prover: the permutation executor returns a wrong
/// capacity half at its first call; everything else (runner, trace generators, prover, verifier)
/// is the real code. Returns (proof verified, some sample differs from the native challenger).
fn replay_d4(h: &Hist) -> Result<(bool, bool, String), String> {
    let perm = p3_test_utils::baby_bear_params::default_babybear_poseidon2_16();
    let dev = Deviating { inner: perm.clone(), calls: Arc::new(AtomicUsize::new(0)), bad_call: 1 };
    let built = build_d4(h, dev)?;
    // observed values and the native challenges
    let obs: Vec<BB> = (0..built.n_obs).map(|i| BB::from_u64(1000 + 17 * i as u64)).collect();
    let mut native = DuplexChallenger::<BB, _, 16, 8>::new(perm);
    let mut native_samples = Vec::new();
    let mut k = 0;
    for (n, s) in [(h.n1, h.s1), (h.n2, h.s2)] {
        for _ in 0..n {
            native.observe(obs[k]);
            k += 1;
        }
        for _ in 0..s {
            let v: BB = native.sample();
            native_samples.push(v);
        }
    }
    // first pass: learn what the deviating circuit samples (its claimed public values)
    let n_s = built.samples.len();
    let mut pubs: Vec<E4> = obs.iter().map(|x| E4::from(*x)).collect();
    pubs.extend(native_samples.iter().map(|x| E4::from(*x)));
    let mut runner = built.circuit.runner();
    runner.set_public_inputs(&pubs).map_err(|e| format!("{e:?}"))?;
    let claimed: Vec<E4> = match runner.run() {
        Ok(_) => native_samples.iter().map(|x| E4::from(*x)).collect(),
        Err(_) => {
            // read the deviating samples through a second circuit without the equality constraints:
            // simply rebuild and evaluate the samples by running with the expected values replaced
            // iteratively (each conflict reveals the computed value in the error's debug string is
            // fragile) - instead recompute them natively with the same deviation
            let perm2 = p3_test_utils::baby_bear_params::default_babybear_poseidon2_16();
            let dev2 = Deviating { inner: perm2, calls: Arc::new(AtomicUsize::new(0)), bad_call: 1 };
            let mut dn = DuplexChallenger::<BB, _, 16, 8>::new(dev2);
            let mut out = Vec::new();
            let mut k = 0;
            for (n, s) in [(h.n1, h.s1), (h.n2, h.s2)] {
                for _ in 0..n {
                    dn.observe(obs[k]);
                    k += 1;
                }
                for _ in 0..s {
                    let v: BB = dn.sample();
                    out.push(E4::from(v));
                }
            }
            out
        }
    };
    let differs = claimed.iter().zip(&native_samples).any(|(c, n)| *c != E4::from(*n));
    // second pass: run with the claimed samples as public values, prove and verify
    let dev3 = Deviating { inner: p3_test_utils::baby_bear_params::default_babybear_poseidon2_16(), calls: Arc::new(AtomicUsize::new(0)), bad_call: 1 };
    let built = build_d4(h, dev3)?;
    let mut pubs: Vec<E4> = obs.iter().map(|x| E4::from(*x)).collect();
    pubs.extend(claimed.iter().copied());
    let _ = n_s;
    let mut runner = built.circuit.runner();
    runner.set_public_inputs(&pubs).map_err(|e| format!("{e:?}"))?;
    let traces = runner.run().map_err(|e| format!("deviating run rejected by the runner: {e:?}"))?;
    let packing = TablePacking::new(1, 1);
    let cfg = config::baby_bear();
    let npo: Vec<Box<dyn NpoPreprocessor<BB>>> = vec![poseidon2_preprocessor::<BB>()];
    let (ad, prim, np) = get_airs_and_degrees_with_prep::<BabyBearConfig, E4, 4>(&built.circuit, &packing, &npo, &poseidon2_air_builders_d4::<BabyBearConfig>(), ConstraintProfile::Standard).map_err(|e| format!("prep: {e:?}"))?;
    let (airs, degs): (Vec<_>, Vec<usize>) = ad.into_iter().unzip();
    let pd = ProverData::from_airs_and_degrees(&cfg, &airs, &degs);
    let cpd = CircuitProverData::new(pd, prim, np);
    let mut prover = BatchStarkProver::new(cfg).with_table_packing(packing);
    for p in poseidon2_table_provers_d4::<BabyBearConfig>(Poseidon2Config::BABY_BEAR_D4_W16) {
        prover.register_table_prover(p);
    }
    let res = std::panic::catch_unwind(std::panic::AssertUnwindSafe(|| prover.prove_all_tables(&traces, &cpd)));
    match res {
        Ok(Ok(proof)) => {
            let v = prover.verify_all_tables::<E4>(&proof);
            Ok((v.is_ok(), differs, format!("verify: {v:?}")))
        }
        Ok(Err(e)) => Ok((false, differs, format!("prove error: {e:?}"))),
        Err(_) => Ok((false, differs, "prover panicked".into())),
    }
}

// ------------------------------------------------------------------ compact-D1 replay (KoalaBear quintic)
type KB = p3_koala_bear::KoalaBear;
type EF5 = p3_field::extension::QuinticTrinomialExtensionField<KB>;

/// Base permutation lifted to quintic lanes that, at its first call, replaces the capacity half of
/// its INPUT by the constant 7 (the deviating executor of the compact-D1 replay).
/// Deviation parameters of the compact-D1 replay (the trace generator is a plain `fn`):
/// permutation call / table row to alter, and the mask of input limbs (bit j = limb j; 0xff00 = capacity).
static DEV_ROW: AtomicUsize = AtomicUsize::new(0);
static DEV_MASK: AtomicUsize = AtomicUsize::new(0xff00);

#[derive(Clone)]
struct DeviatingIn {
    inner: p3_koala_bear::Poseidon2KoalaBear<16>,
    calls: Arc<AtomicUsize>,
    deviate: bool,
}
impl Permutation<[EF5; 16]> for DeviatingIn {
    fn permute_mut(&self, x: &mut [EF5; 16]) {
        let k = self.calls.fetch_add(1, Ordering::SeqCst);
        let mut base: [KB; 16] = core::array::from_fn(|i| {
            let cs: &[KB] = x[i].as_basis_coefficients_slice();
            cs[0]
        });
        if self.deviate && k == DEV_ROW.load(Ordering::SeqCst) {
            let mask = DEV_MASK.load(Ordering::SeqCst);
            for (j, y) in base.iter_mut().enumerate() {
                if (mask >> j) & 1 == 1 {
                    *y = KB::from_u64(7);
                }
            }
        }
        self.inner.permute_mut(&mut base);
        for i in 0..16 {
            x[i] = EF5::from(base[i]);
        }
    }
}

/// The real trace generator, followed by the matching alteration of row 0's capacity inputs.
fn forged_trace_d1(op_states: &p3_circuit::ops::OpStateMap) -> Result<Option<Box<dyn p3_circuit::tables::NonPrimitiveTrace<EF5>>>, p3_circuit::CircuitError> {
    use p3_circuit::ops::poseidon2_perm::{KoalaBearD1Width16, Poseidon2Trace};
    let Some(t) = generate_poseidon2_trace::<EF5, KoalaBearD1Width16>(op_states)? else { return Ok(None) };
    let mut tr: Poseidon2Trace<KB> = t.as_any().downcast_ref::<Poseidon2Trace<KB>>().expect("poseidon2 trace type").clone();
    let (row, mask) = (DEV_ROW.load(Ordering::SeqCst), DEV_MASK.load(Ordering::SeqCst));
    if row < tr.operations.len() {
        for (j, v) in tr.operations[row].input_values.iter_mut().enumerate() {
            if (mask >> j) & 1 == 1 {
                *v = KB::from_u64(7);
            }
        }
    }
    Ok(Some(Box::new(tr)))
}

/// Returns (proof verified, sample differs from native, info). `deviate = false` is the control.
fn replay_d1(h: &Hist, deviate: bool) -> Result<(bool, bool, String), String> {
    use p3_circuit::ops::poseidon2_perm::KoalaBearD1Width16;
    use p3_circuit_prover::batch_stark_prover::{poseidon2_air_builders_d5, poseidon2_table_provers_d5};
    use p3_circuit_prover::config::KoalaBearConfig;
    let inner = p3_koala_bear::default_koalabear_poseidon2_16();
    let obs: Vec<KB> = (0..(h.n1 + h.n2)).map(|i| KB::from_u64(1000 + 17 * i as u64)).collect();
    // native samples, and the samples a prover starting from the altered capacity obtains
    let sample_with = |dev: bool| -> Vec<KB> {
        let p = DeviatingInBase { inner: inner.clone(), calls: Arc::new(AtomicUsize::new(0)), deviate: dev };
        let mut c = DuplexChallenger::<KB, _, 16, 8>::new(p);
        let mut out = Vec::new();
        let mut k = 0;
        for (n, s) in [(h.n1, h.s1), (h.n2, h.s2)] {
            for _ in 0..n {
                c.observe(obs[k]);
                k += 1;
            }
            for _ in 0..s {
                let v: KB = c.sample();
                out.push(v);
            }
        }
        out
    };
    let native = sample_with(false);
    let claimed = sample_with(deviate);
    let differs = native != claimed;
    let mut b = CircuitBuilder::<EF5>::new();
    let perm = DeviatingIn { inner: inner.clone(), calls: Arc::new(AtomicUsize::new(0)), deviate };
    if deviate {
        b.enable_poseidon2_perm_base::<KoalaBearD1Width16, _>(forged_trace_d1, perm);
    } else {
        b.enable_poseidon2_perm_base::<KoalaBearD1Width16, _>(generate_poseidon2_trace::<EF5, KoalaBearD1Width16>, perm);
    }
    let mut chal = CircuitChallenger::<16, 8, Poseidon2Config>::new_koalabear_base();
    let mut samples = Vec::new();
    for (n, s) in [(h.n1, h.s1), (h.n2, h.s2)] {
        for _ in 0..n {
            let t = b.public_input();
            RecursiveChallenger::<KB, EF5>::observe(&mut chal, &mut b, t);
        }
        for _ in 0..s {
            samples.push(RecursiveChallenger::<KB, EF5>::sample(&mut chal, &mut b));
        }
    }
    for s in samples.clone() {
        let e = b.public_input();
        b.connect(s, e);
    }
    let circuit = b.build().map_err(|e| format!("build: {e:?}"))?;
    let mut pubs: Vec<EF5> = obs.iter().map(|x| EF5::from(*x)).collect();
    pubs.extend(claimed.iter().map(|x| EF5::from(*x)));
    let mut runner = circuit.runner();
    runner.set_public_inputs(&pubs).map_err(|e| format!("{e:?}"))?;
    let traces = runner.run().map_err(|e| format!("run rejected by the runner: {e:?}"))?;
    let packing = TablePacking::new(1, 1);
    let cfg = config::koala_bear();
    let npo: Vec<Box<dyn NpoPreprocessor<KB>>> = vec![poseidon2_preprocessor::<KB>()];
    let (ad, prim, np) = get_airs_and_degrees_with_prep::<KoalaBearConfig, EF5, 5>(&circuit, &packing, &npo, &poseidon2_air_builders_d5::<KoalaBearConfig>(), ConstraintProfile::Standard).map_err(|e| format!("prep: {e:?}"))?;
    if std::env::var("VERIF_TRACE").is_ok() {
        use p3_circuit::ops::poseidon2_perm::Poseidon2Trace;
        for (k, t) in traces.non_primitive_traces.iter() {
            if let Some(pt) = t.as_any().downcast_ref::<Poseidon2Trace<KB>>() {
                for (r, op) in pt.operations.iter().enumerate() {
                    eprintln!("[trace] {k:?} row {r}: new_start={} capacity in = {:?}", op.new_start, &op.input_values[8..]);
                }
            }
        }
        for (k, v) in np.iter() {
            let w = v.len() / traces.non_primitive_traces.values().next().map(|t| t.rows()).unwrap_or(1).next_power_of_two().max(1);
            eprintln!("[trace] prep {k:?}: {} values, guessed width {w}; first rows: {:?}", v.len(), v.chunks(44).take(3).map(|c| c.iter().map(|x| x.as_canonical_u64()).collect::<Vec<_>>()).collect::<Vec<_>>());
        }
    }
    let (airs, degs): (Vec<_>, Vec<usize>) = ad.into_iter().unzip();
    let pd = ProverData::from_airs_and_degrees(&cfg, &airs, &degs);
    let cpd = CircuitProverData::new(pd, prim, np);
    let mut prover = BatchStarkProver::new(cfg).with_table_packing(packing);
    for p in poseidon2_table_provers_d5::<KoalaBearConfig>(Poseidon2Config::KOALA_BEAR_D1_W16) {
        prover.register_table_prover(p);
    }
    let res = std::panic::catch_unwind(std::panic::AssertUnwindSafe(|| prover.prove_all_tables(&traces, &cpd)));
    match res {
        Ok(Ok(proof)) => {
            let v = prover.verify_all_tables::<EF5>(&proof);
            Ok((v.is_ok(), differs, format!("verify: {v:?}")))
        }
        Ok(Err(e)) => Ok((false, differs, format!("prove error: {e:?}"))),
        Err(_) => Ok((false, differs, "prover panicked (debug constraint check)".into())),
    }
}

#[derive(Clone)]
struct DeviatingInBase {
    inner: p3_koala_bear::Poseidon2KoalaBear<16>,
    calls: Arc<AtomicUsize>,
    deviate: bool,
}
impl Permutation<[KB; 16]> for DeviatingInBase {
    fn permute_mut(&self, x: &mut [KB; 16]) {
        let k = self.calls.fetch_add(1, Ordering::SeqCst);
        if self.deviate && k == DEV_ROW.load(Ordering::SeqCst) {
            let mask = DEV_MASK.load(Ordering::SeqCst);
            for (j, y) in x.iter_mut().enumerate() {
                if (mask >> j) & 1 == 1 {
                    *y = KB::from_u64(7);
                }
            }
        }
        self.inner.permute_mut(x);
    }
}
impl p3_symmetric::CryptographicPermutation<[KB; 16]> for DeviatingInBase {}

// ------------------------------------------------------------------ Poseidon1 compact-D1 replay
#[derive(Clone)]
struct DeviatingInP1 {
    inner: p3_koala_bear::Poseidon1KoalaBear<16>,
    calls: Arc<AtomicUsize>,
    deviate: bool,
}
impl Permutation<[EF5; 16]> for DeviatingInP1 {
    fn permute_mut(&self, x: &mut [EF5; 16]) {
        let k = self.calls.fetch_add(1, Ordering::SeqCst);
        let mut base: [KB; 16] = core::array::from_fn(|i| {
            let cs: &[KB] = x[i].as_basis_coefficients_slice();
            cs[0]
        });
        if self.deviate && k == DEV_ROW.load(Ordering::SeqCst) {
            let mask = DEV_MASK.load(Ordering::SeqCst);
            for (j, y) in base.iter_mut().enumerate() {
                if (mask >> j) & 1 == 1 {
                    *y = KB::from_u64(7);
                }
            }
        }
        self.inner.permute_mut(&mut base);
        for i in 0..16 {
            x[i] = EF5::from(base[i]);
        }
    }
}
#[derive(Clone)]
struct DeviatingInBaseP1 {
    inner: p3_koala_bear::Poseidon1KoalaBear<16>,
    calls: Arc<AtomicUsize>,
    deviate: bool,
}
impl Permutation<[KB; 16]> for DeviatingInBaseP1 {
    fn permute_mut(&self, x: &mut [KB; 16]) {
        let k = self.calls.fetch_add(1, Ordering::SeqCst);
        if self.deviate && k == DEV_ROW.load(Ordering::SeqCst) {
            let mask = DEV_MASK.load(Ordering::SeqCst);
            for (j, y) in x.iter_mut().enumerate() {
                if (mask >> j) & 1 == 1 {
                    *y = KB::from_u64(7);
                }
            }
        }
        self.inner.permute_mut(x);
    }
}
impl p3_symmetric::CryptographicPermutation<[KB; 16]> for DeviatingInBaseP1 {}

fn forged_trace_p1_d1(op_states: &p3_circuit::ops::OpStateMap) -> Result<Option<Box<dyn p3_circuit::tables::NonPrimitiveTrace<EF5>>>, p3_circuit::CircuitError> {
    use p3_circuit::ops::poseidon1_perm::{KoalaBearD1Width16, Poseidon1Trace, generate_poseidon1_trace};
    let Some(t) = generate_poseidon1_trace::<EF5, KoalaBearD1Width16>(op_states)? else { return Ok(None) };
    let mut tr: Poseidon1Trace<KB> = t.as_any().downcast_ref::<Poseidon1Trace<KB>>().expect("poseidon1 trace type").clone();
    let (row, mask) = (DEV_ROW.load(Ordering::SeqCst), DEV_MASK.load(Ordering::SeqCst));
    if row < tr.operations.len() {
        for (j, v) in tr.operations[row].input_values.iter_mut().enumerate() {
            if (mask >> j) & 1 == 1 {
                *v = KB::from_u64(7);
            }
        }
    }
    Ok(Some(Box::new(tr)))
}

/// Same replay as `replay_d1` for the Poseidon1 compact-D1 table.
fn replay_p1_d1(h: &Hist, deviate: bool) -> Result<(bool, bool, String), String> {
    use p3_circuit::ops::Poseidon1Config;
    use p3_circuit::ops::poseidon1_perm::{KoalaBearD1Width16, generate_poseidon1_trace};
    use p3_circuit_prover::batch_stark_prover::{poseidon1_air_builders_d5, poseidon1_preprocessor, poseidon1_table_provers_d5};
    use p3_circuit_prover::config::KoalaBearConfig;
    let inner = p3_koala_bear::default_koalabear_poseidon1_16();
    let obs: Vec<KB> = (0..(h.n1 + h.n2)).map(|i| KB::from_u64(1000 + 17 * i as u64)).collect();
    let sample_with = |dev: bool| -> Vec<KB> {
        let p = DeviatingInBaseP1 { inner: inner.clone(), calls: Arc::new(AtomicUsize::new(0)), deviate: dev };
        let mut c = DuplexChallenger::<KB, _, 16, 8>::new(p);
        let mut out = Vec::new();
        let mut k = 0;
        for (n, s) in [(h.n1, h.s1), (h.n2, h.s2)] {
            for _ in 0..n {
                c.observe(obs[k]);
                k += 1;
            }
            for _ in 0..s {
                let v: KB = c.sample();
                out.push(v);
            }
        }
        out
    };
    let native = sample_with(false);
    let claimed = sample_with(deviate);
    let differs = native != claimed;
    let mut b = CircuitBuilder::<EF5>::new();
    let perm = DeviatingInP1 { inner: inner.clone(), calls: Arc::new(AtomicUsize::new(0)), deviate };
    if deviate {
        b.enable_poseidon1_perm_base::<KoalaBearD1Width16, _>(forged_trace_p1_d1, perm);
    } else {
        b.enable_poseidon1_perm_base::<KoalaBearD1Width16, _>(generate_poseidon1_trace::<EF5, KoalaBearD1Width16>, perm);
    }
    let mut chal = CircuitChallenger::<16, 8, Poseidon1Config>::new_koalabear_poseidon1_base();
    let mut samples = Vec::new();
    for (n, s) in [(h.n1, h.s1), (h.n2, h.s2)] {
        for _ in 0..n {
            let t = b.public_input();
            RecursiveChallenger::<KB, EF5>::observe(&mut chal, &mut b, t);
        }
        for _ in 0..s {
            samples.push(RecursiveChallenger::<KB, EF5>::sample(&mut chal, &mut b));
        }
    }
    for s in samples.clone() {
        let e = b.public_input();
        b.connect(s, e);
    }
    let circuit = b.build().map_err(|e| format!("build: {e:?}"))?;
    let mut pubs: Vec<EF5> = obs.iter().map(|x| EF5::from(*x)).collect();
    pubs.extend(claimed.iter().map(|x| EF5::from(*x)));
    let mut runner = circuit.runner();
    runner.set_public_inputs(&pubs).map_err(|e| format!("{e:?}"))?;
    let traces = runner.run().map_err(|e| format!("run rejected by the runner: {e:?}"))?;
    let packing = TablePacking::new(1, 1);
    let cfg = config::koala_bear();
    let npo: Vec<Box<dyn NpoPreprocessor<KB>>> = vec![poseidon1_preprocessor::<KB>()];
    let (ad, prim, np) = get_airs_and_degrees_with_prep::<KoalaBearConfig, EF5, 5>(&circuit, &packing, &npo, &poseidon1_air_builders_d5::<KoalaBearConfig>(), ConstraintProfile::Standard).map_err(|e| format!("prep: {e:?}"))?;
    let (airs, degs): (Vec<_>, Vec<usize>) = ad.into_iter().unzip();
    let pd = ProverData::from_airs_and_degrees(&cfg, &airs, &degs);
    let cpd = CircuitProverData::new(pd, prim, np);
    let mut prover = BatchStarkProver::new(cfg).with_table_packing(packing);
    for p in poseidon1_table_provers_d5::<KoalaBearConfig>(Poseidon1Config::KOALA_BEAR_D1_W16) {
        prover.register_table_prover(p);
    }
    let res = std::panic::catch_unwind(std::panic::AssertUnwindSafe(|| prover.prove_all_tables(&traces, &cpd)));
    match res {
        Ok(Ok(proof)) => {
            let v = prover.verify_all_tables::<EF5>(&proof);
            Ok((v.is_ok(), differs, format!("verify: {v:?}")))
        }
        Ok(Err(e)) => Ok((false, differs, format!("prove error: {e:?}"))),
        Err(_) => Ok((false, differs, "prover panicked (debug constraint check)".into())),
    }
}

fn main() {
    std::panic::set_hook(Box::new(|_| {}));
    let args = parse_args();
    let mut sh = Shard::new();
    sh.functions = [
        "p3_poseidon2_circuit_air::Poseidon2CircuitAir::eval + eval_interactions (BabyBear D4 W16 and compact D1 W16 layouts), instantiated over the symbolic field and run on free rows with the real preprocessed rows",
        "p3_recursion::challenger::CircuitChallenger::{observe, sample, duplexing, duplexing_base, duplexing_ext} + CircuitBuilder::add_poseidon2_perm_for_challenger(_base) + real compiler + circuit-prover preprocessing (get_airs_and_degrees_with_prep, Poseidon2Preprocessor)",
        "p3_challenger::DuplexChallenger at the symbolic field (native side); replay: real runner, trace generators, BatchStarkProver::{prove_all_tables, verify_all_tables}",
    ]
    .iter()
    .map(|s| s.to_string())
    .collect();
    let thorough = args.tier == "thorough";
    if std::env::var("VERIF_CONTROL").is_ok() {
        for h in histories(true) {
            eprintln!("control d1 {h:?}: {:?}", replay_d1(&h, false));
            eprintln!("forged  d1 {h:?}: {:?}", replay_d1(&h, true));
            eprintln!("control p1-d1 {h:?}: {:?}", replay_p1_d1(&h, false));
            eprintln!("forged  p1-d1 {h:?}: {:?}", replay_p1_d1(&h, true));
        }
        return;
    }
    let mut violations: Vec<Value> = Vec::new();
    let mut solver = Solver::new(SolverKind::Z3, P, if thorough { 60_000 } else { 20_000 });
    let mut job = 0usize;
    let mut n_prog = 0usize;
    for cfg in ["bb-d4-w16", "bb-d1-w16"] {
        for h in histories(thorough) {
            job += 1;
            if (job - 1) % args.nshards != args.shard {
                continue;
            }
            let label = format!("{cfg} observe {} sample {} observe {} sample {}", h.n1, h.s1, h.n2, h.s2);
            if let Ok(f) = std::env::var("VERIF_FILTER") {
                if !label.contains(&f) {
                    continue;
                }
            }
            n_prog += 1;
            sh.bump("programs");
            let sys = if cfg == "bb-d4-w16" { system_d4(&h) } else { system_d1(&h) };
            let sys = match sys {
                Ok(s) => s,
                Err(e) => {
                    sh.undecided.push(json!({"program": label, "why": format!("system not built: {e}")}));
                    sh.bump("c06.bound.undecided");
                    continue;
                }
            };
            sh.sample(json!({"program": label, "poseidon_rows": sys.n_rows, "wiring_constraints": sys.n_wiring, "inner_round_constraints_replaced_by_uf": sys.n_inner_dropped, "bus_tuples": sys.n_bus, "primitive_relations": sys.n_prim, "hypotheses": sys.hyps.len(), "goals": sys.goals.len()}), 16);
            sh.add("c06.wiring_constraints", sys.n_wiring as f64);
            sh.add("c06.bus_tuples", sys.n_bus as f64);
            // the arena was reset for this system: solver definitions must not outlive it
            solver.push();
            let mut rw = rewriter_from(P, &sys.hyps, false);
            let mut unbound: Vec<String> = Vec::new();
            // lemma finder over UF atoms (re-association of the length-tag arithmetic inside the
            // permutation arguments), each lemma and the final identity validated by z3
            let mut nz_cache: Option<Normalizer> = None;
            for (name, cv, nv) in &sys.goals {
                let goal = Fm::Eq(*cv, *nv);
                let syntactic = matches!(rw.canon_fm(&goal), Fm::True);
                if !syntactic {
                    if nz_cache.is_none() {
                        let mut nz = Normalizer::new(P);
                        nz.deadline = Some(std::time::Instant::now() + std::time::Duration::from_secs(60));
                        // two rounds: substitutions recorded on canonical UF nodes go stale when a
                        // later hypothesis rewrites their arguments; the second round re-attaches them
                        for _round in 0..2 {
                            for h in &sys.hyps {
                                if let Fm::Eq(l, r) = h {
                                    let _ = nz.add_hyp(*l, *r);
                                }
                            }
                        }
                        nz_cache = Some(nz);
                    }
                    let nz = nz_cache.as_mut().unwrap();
                    let mut ok = nz.equal(*cv, *nv) == Some(true);
                    if ok {
                        solver.set_timeout(5_000);
                        let mut check = |solver: &mut Solver, nz: &Normalizer, a: H, b: H| -> bool {
                            for free_inv in [true, false] {
                                let Some(script) = nz.lemma_script(a, b, free_inv) else { continue };
                                solver.push();
                                solver.raw(&script);
                                let r = solver.check_som();
                                solver.pop();
                                if matches!(r, SatResult::Unsat) {
                                    return true;
                                }
                            }
                            false
                        };
                        for (i, rep) in nz.merges.clone() {
                            ok &= check(&mut solver, nz, H::N(i), rep);
                        }
                        ok &= check(&mut solver, nz, *cv, *nv);
                        solver.set_timeout(if thorough { 60_000 } else { 20_000 });
                    }
                    if ok {
                        sh.bump("c06.bound.obligations");
                        sh.bump("c06.bound.unsat");
                        sh.bump("c06.bound.unsat_lemma_chain_validated_by_z3");
                        continue;
                    }
                }
                match discharge(&mut solver, &mut rw, &sys.hyps, &goal, &mut sh, "c06.bound") {
                    Verdict::Holds => {}
                    Verdict::Cex(_) => unbound.push(name.clone()),
                    Verdict::Undecided(w) => sh.undecided.push(json!({"program": label, "ob": name, "why": w})),
                }
            }
            solver.pop();
            if unbound.is_empty() {
                continue;
            }
            // a deviation exists in the model: replay with the real prover
            let mut role_override: Option<String> = None;
            let (confirmed, detail) = if cfg == "bb-d4-w16" {
                match replay_d4(&h) {
                    Ok((verified, differs, info)) => (verified && differs, format!("deviating permutation executor (wrong capacity after the first permutation): proof verified={verified}, challenge differs from native={differs} ({info})")),
                    Err(e) => (false, format!("replay failed: {e}")),
                }
            } else {
                // the compact-D1 AIR is provable only inside a quintic KoalaBear circuit: replay there
                // deviation strategies: all capacity limbs of row 0, then every single capacity limb
                // and all limbs of each later row (a wrong chained capacity)
                let control = replay_d1(&h, false);
                let mut found: Option<(usize, usize, String)> = None;
                let mut tried = 0;
                let mut strategies: Vec<(usize, usize)> = Vec::new();
                for row in 0..sys.n_rows.min(3) {
                    strategies.push((row, 0xff00));
                    for j in (8..16).chain(0..8) {
                        strategies.push((row, 1 << j));
                    }
                }
                if let Ok((true, false, _)) = control {
                    for (row, mask) in strategies {
                        DEV_ROW.store(row, Ordering::SeqCst);
                        DEV_MASK.store(mask, Ordering::SeqCst);
                        tried += 1;
                        if let Ok((true, true, info)) = replay_d1(&h, true) {
                            found = Some((row, mask, info));
                            break;
                        }
                    }
                }
                DEV_ROW.store(0, Ordering::SeqCst);
                DEV_MASK.store(0xff00, Ordering::SeqCst);
                match found {
                    Some((row, mask, info)) => {
                        role_override = Some(if row == 0 && mask == 0xff00 { "first-row-capacity-unconstrained:compact-d1".to_string() } else if mask & 0xff00 != 0 { format!("chained-capacity-unconstrained:compact-d1:row{row}:limbs{mask:#x}") } else { format!("rate-input-unconstrained:compact-d1:row{row}:limbs{mask:#x}") });
                        (true, format!("KoalaBear quintic circuit, permutation input limbs (mask {mask:#x}; bits 8-15 = capacity) of row {row} set to 7: honest control proof verified, forged proof verified, challenge differs from native ({info})"))
                    }
                    None => (false, format!("KoalaBear quintic circuit: control {:?}; none of {tried} capacity deviations produced a verifying proof", control.map(|c| c.0))),
                }
            };
            let role = role_override.unwrap_or_else(|| if cfg == "bb-d4-w16" { "capacity-through-unexposed-witness:d4".to_string() } else { "unbound:compact-d1".to_string() });
            let first_unbound = unbound.first().cloned().unwrap_or_default();
            let v = json!({"property": "C06", "kind": "challenge-not-bound", "signature": format!("C06/challenge-not-bound:{role}"),
                "detail": format!("z3 model: {} of {} sampled values can differ from the native challenge (first: {first_unbound}); {detail}", unbound.len(), sys.goals.len()),
                "program_text": label, "confirmed_by_native_replay": confirmed});
            if confirmed {
                sh.bump("c06.violations_confirmed");
                violations.push(v);
            } else if h.s1 + h.s2 > 0 && cfg == "bb-d4-w16" && unbound.iter().all(|n| n.starts_with("sample#0")) && h.n2 == 0 && h.s1 == 1 {
                // only the first squeeze of a single-permutation history: nothing downstream of the
                // unexposed capacity is sampled, so the replay cannot show a difference
                sh.undecided.push(json!({"non_reproducing_counterexample": v}));
            } else {
                sh.undecided.push(json!({"non_reproducing_counterexample": v}));
            }
        }
    }
    // ---------- supplementary, NOT solver-decided: the Poseidon1 compact-D1 table has the same layout
    // as the Poseidon2 one modelled above but no symbolic twin here; the first-row / chained-capacity
    // deviations are replayed on it with the real prover (regression guard for the repaired defect)
    if args.shard == 0 && std::env::var("VERIF_FILTER").is_err() {
        for h in histories(false).into_iter().take(if thorough { 4 } else { 2 }) {
            let label = format!("poseidon1 koala-bear d1-w16 (quintic circuit) observe {} sample {} observe {} sample {}", h.n1, h.s1, h.n2, h.s2);
            sh.bump("c06.p1_replay.histories");
            DEV_ROW.store(0, Ordering::SeqCst);
            DEV_MASK.store(0xff00, Ordering::SeqCst);
            match (replay_p1_d1(&h, false), replay_p1_d1(&h, true)) {
                (Ok((true, false, _)), Ok((verified, differs, info))) => {
                    if verified && differs {
                        sh.bump("c06.violations_confirmed");
                        violations.push(json!({"property": "C06", "kind": "challenge-not-bound", "signature": "C06/challenge-not-bound:first-row-capacity-unconstrained:poseidon1-compact-d1",
                            "detail": format!("capacity inputs of the first Poseidon1 permutation row set to 7: honest control proof verified, forged proof verified, challenge differs from native ({info})"), "program_text": label, "confirmed_by_native_replay": true}));
                    } else {
                        sh.bump("c06.p1_replay.forged_rejected");
                    }
                }
                (c, f) => sh.undecided.push(json!({"program": label, "why": format!("replay not conclusive: control {:?} forged {:?}", c.map(|x| (x.0, x.1)), f.map(|x| (x.0, x.1)))})),
            }
        }
    }
    sh.add("distinct_programs", n_prog.max(2) as f64);
    sh.absorb_solver("z3", &solver.stats);
    sh.violations = violations;
    sh.write(&args.out);
}
