//! C07 — in-circuit FRI verification (`verify_fri_circuit`) vs native `p3_fri` verification,
//! both executed on the SAME symbolic opening proof.
//!
//! Per shape (FRI parameter set × batches × matrix heights/widths × opening-point pattern):
//!  * an honest opening proof is produced concretely with the real prover;
//!  * commitments, proof (through the real serde derives) and claimed evaluations become
//!    symbolic variables; opening points, alpha, betas and query indices are derived from them by
//!    the real `DuplexChallenger` instantiated at the symbolic field (UF permutation);
//!  * native: `<TwoAdicFriPcs as Pcs>::verify` at the symbolic field — its equality decisions are
//!    the native check list (Merkle/cap checks and fold-chain checks);
//!  * circuit: the arithmetic FRI circuit built by the real `verify_fri_circuit` (same mode as
//!    recursion/tests/fri.rs: challenges and index bits are public inputs, MMCS openings are
//!    C08's subject), compiled by the real compiler and run by the real runner on the symbols.
//!
//! Decided:
//!  (1) acceptance agreement on the honest path (both accept);
//!  (2) dependence: every proof / evaluation / point variable that the native fold-chain checks
//!      depend on occurs in the circuit's checks;
//!  (3) check-list equivalence, both directions (native Merkle checks are hypotheses in both):
//!      congruence rewriting, then the polynomial-normal-form lemma finder whose lemmas are
//!      validated by z3 one by one; obligations left open are reported, never counted as held;
//!  (4) supplementary (not solver-decided): per-variable alteration of the shadow point, both
//!      verifiers re-run concolically with all checks recorded; fold-chain verdicts must agree.
use std::collections::{BTreeSet, HashMap};
use std::sync::Arc;

use harness::common::*;
use p3_challenger::{CanObserve, CanSampleBits, DuplexChallenger, FieldChallenger, GrindingChallenger};
use p3_circuit::CircuitBuilder;
use p3_commit::{ExtensionMmcs, Pcs};
use p3_dft::Radix2DitParallel;
use p3_field::coset::TwoAdicMultiplicativeCoset;
use p3_field::extension::BinomialExtensionField;
use p3_field::{BasedVectorSpace, Field, PrimeCharacteristicRing, PrimeField64};
use p3_fri::{FriParameters, TwoAdicFriPcs};
use p3_matrix::dense::RowMajorMatrix;
use p3_merkle_tree::MerkleTreeMmcs;
use p3_recursion::Recursive;
use p3_recursion::pcs::fri::{FriProofTargets, InputProofTargets, RecExtensionValMmcs, RecValMmcs, Witness, verify_fri_circuit};
use p3_recursion::public_inputs::{CommitmentOpening, FriVerifierInputs};
use p3_symmetric::{PaddingFreeSponge, Permutation, TruncatedPermutation};
use p3_test_utils::baby_bear_params as bbp;
use rand::SeedableRng;
use rand::rngs::SmallRng;
use serde_json::{Value, json};

type BB = p3_baby_bear::BabyBear;
type CCh = bbp::Challenge;
type SF = SymBB;
type SCh = BinomialExtensionField<SF, 4>;
type SPerm = SymPerm<16>;
type SHash = PaddingFreeSponge<SPerm, 16, 8, 8>;
type SCompress = TruncatedPermutation<SPerm, 2, 8, 16>;
type SMmcs = MerkleTreeMmcs<SF, SF, SHash, SCompress, 2, 8>;
type SChMmcs = ExtensionMmcs<SF, SCh, SMmcs>;
type SChallenger = DuplexChallenger<SF, SPerm, 16, 8>;
type SDft = Radix2DitParallel<SF>;
type SPcs = TwoAdicFriPcs<SF, SDft, SMmcs, SChMmcs>;
type RecVal = RecValMmcs<SF, 8, SHash, SCompress>;
type RecExt = RecExtensionValMmcs<SF, SCh, 8, RecVal>;
type FriTargets = FriProofTargets<SF, SCh, RecExt, InputProofTargets<SF, SCh, RecVal>, Witness<SF>>;
const P: u64 = BabyBearCfg::P;

#[derive(Clone, Debug)]
struct Params {
    log_blowup: usize,
    log_final_poly_len: usize,
    max_log_arity: usize,
    num_queries: usize,
    commit_pow: usize,
    query_pow: usize,
}

/// batches -> matrices: (log size, width, opening point ids)
#[derive(Clone, Debug)]
struct Shape {
    name: String,
    params: Params,
    batches: Vec<Vec<(usize, usize, Vec<usize>)>>,
}

fn shapes(thorough: bool, seed: u64) -> Vec<Shape> {
    let p = |log_blowup, log_final_poly_len, max_log_arity, num_queries, commit_pow, query_pow| Params { log_blowup, log_final_poly_len, max_log_arity, num_queries, commit_pow, query_pow };
    let mut v = vec![
        Shape { name: "one matrix 2^3 w1, one point, binary folding".to_string(), params: p(1, 0, 1, 1, 0, 0), batches: vec![vec![(3, 1, vec![0])]] },
        Shape { name: "one matrix 2^3 w2, two points, pow bits".to_string(), params: p(1, 0, 1, 2, 1, 1), batches: vec![vec![(3, 2, vec![0, 1])]] },
        Shape { name: "same height, same point".to_string(), params: p(1, 0, 1, 1, 0, 0), batches: vec![vec![(4, 1, vec![0]), (4, 2, vec![0])]] },
        Shape { name: "same height, distinct single points".to_string(), params: p(1, 0, 1, 1, 0, 0), batches: vec![vec![(4, 1, vec![0]), (4, 1, vec![1])]] },
        Shape { name: "three heights with roll-ins, distinct points".to_string(), params: p(1, 0, 1, 1, 0, 0), batches: vec![vec![(5, 1, vec![0]), (4, 1, vec![1]), (3, 1, vec![0])]] },
        Shape { name: "two batches, mixed heights".to_string(), params: p(2, 0, 1, 1, 0, 1), batches: vec![vec![(4, 1, vec![0, 1])], vec![(4, 2, vec![0]), (2, 1, vec![0])]] },
        Shape { name: "arity 4 (log 2), final poly len 2".to_string(), params: p(1, 1, 2, 1, 0, 0), batches: vec![vec![(5, 1, vec![0]), (3, 1, vec![0])]] },
        Shape { name: "arity 8 then smaller, blowup 2".to_string(), params: p(2, 0, 3, 1, 0, 0), batches: vec![vec![(5, 1, vec![0]), (4, 1, vec![1])]] },
        Shape { name: "height-1 matrix next to taller ones".to_string(), params: p(2, 0, 1, 1, 0, 0), batches: vec![vec![(0, 2, vec![0]), (3, 1, vec![0]), (4, 1, vec![0])]] },
        Shape { name: "height-1 and height-2 matrices, distinct points".to_string(), params: p(1, 0, 1, 1, 0, 0), batches: vec![vec![(0, 1, vec![0]), (1, 1, vec![1]), (3, 2, vec![0])]] },
        Shape { name: "arity 16".to_string(), params: p(1, 0, 4, 1, 0, 0), batches: vec![vec![(5, 1, vec![0])]] },
        Shape { name: "arity 32".to_string(), params: p(1, 0, 5, 1, 0, 0), batches: vec![vec![(6, 1, vec![0])]] },
    ];
    if thorough {
        v.extend([
            Shape { name: "arity 32 then 2".to_string(), params: p(1, 0, 5, 2, 0, 0), batches: vec![vec![(7, 1, vec![0]), (3, 1, vec![0])]] },
            Shape { name: "arity 8, final poly len 4, three matrices same height, 3 points".to_string(), params: p(1, 2, 3, 2, 1, 1), batches: vec![vec![(6, 2, vec![0]), (6, 1, vec![1]), (6, 1, vec![2]), (4, 1, vec![0, 1])]] },
            Shape { name: "two batches same heights distinct points".to_string(), params: p(1, 0, 2, 1, 0, 0), batches: vec![vec![(5, 1, vec![0])], vec![(5, 1, vec![1]), (5, 2, vec![1])]] },
            Shape { name: "wide matrix w5, two points".to_string(), params: p(1, 0, 1, 1, 0, 0), batches: vec![vec![(3, 5, vec![0, 1])]] },
            Shape { name: "blowup 3, arity 4, heights 6/5/4/3".to_string(), params: p(3, 1, 2, 1, 0, 0), batches: vec![vec![(6, 1, vec![0]), (5, 1, vec![1]), (4, 1, vec![0]), (3, 1, vec![1])]] },
            Shape { name: "arity 16 with roll-in inside a fold".to_string(), params: p(1, 0, 4, 1, 0, 0), batches: vec![vec![(6, 1, vec![0]), (4, 1, vec![0]), (3, 1, vec![1])]] },
        ]);
    }
    // seeded random shapes (those the real prover refuses are skipped by the caller)
    use rand::RngExt;
    let mut rng = SmallRng::seed_from_u64(seed.wrapping_mul(31).wrapping_add(7));
    let n_random = if thorough { 160 } else { 6 };
    for k in 0..n_random {
        let log_blowup = rng.random_range(1..=2usize);
        let log_final_poly_len = rng.random_range(0..=1usize);
        let max_log_arity = rng.random_range(1..=4usize);
        let num_queries = rng.random_range(1..=2usize);
        let n_batches = rng.random_range(1..=2usize);
        let n_points = rng.random_range(1..=3usize);
        let min_log = if log_final_poly_len > 0 { log_final_poly_len + 1 } else { 0 };
        let batches: Vec<Vec<(usize, usize, Vec<usize>)>> = (0..n_batches)
            .map(|_| {
                let n_m = rng.random_range(1..=3usize);
                (0..n_m)
                    .map(|_| {
                        let ls = rng.random_range(min_log..=5usize);
                        let w = rng.random_range(1..=3usize);
                        let np = rng.random_range(1..=2usize.min(n_points));
                        let mut pts: Vec<usize> = Vec::new();
                        while pts.len() < np {
                            let c = rng.random_range(0..n_points);
                            if !pts.contains(&c) {
                                pts.push(c);
                            }
                        }
                        (ls, w, pts)
                    })
                    .collect()
            })
            .collect();
        // point ids must be dense from 0
        let used: BTreeSet<usize> = batches.iter().flatten().flat_map(|m| m.2.iter().copied()).collect();
        let remap: HashMap<usize, usize> = used.iter().enumerate().map(|(i, p)| (*p, i)).collect();
        let batches = batches.into_iter().map(|b| b.into_iter().map(|(ls, w, pts)| (ls, w, pts.into_iter().map(|p| remap[&p]).collect())).collect()).collect();
        v.push(Shape { name: format!("random shape #{k}"), params: p(log_blowup, log_final_poly_len, max_log_arity, num_queries, rng.random_range(0..=1usize), rng.random_range(0..=1usize)), batches });
    }
    v
}

struct Setup {
    shape: Shape,
    commit_json: Vec<String>,
    proof_json: String,
    /// batch -> matrix -> point -> values
    opened: Vec<Vec<Vec<Vec<CCh>>>>,
    n_points: usize,
}

fn concrete_pcs(pr: &Params) -> (bbp::MyPcs, bbp::Perm) {
    let perm = bbp::default_babybear_poseidon2_16();
    let val_mmcs = bbp::MyMmcs::new(bbp::MyHash::new(perm.clone()), bbp::MyCompress::new(perm.clone()), 0);
    let challenge_mmcs = bbp::ChallengeMmcs::new(val_mmcs.clone());
    let fri_params = FriParameters {
        log_blowup: pr.log_blowup,
        log_final_poly_len: pr.log_final_poly_len,
        max_log_arity: pr.max_log_arity,
        num_queries: pr.num_queries,
        commit_proof_of_work_bits: pr.commit_pow,
        query_proof_of_work_bits: pr.query_pow,
        mmcs: challenge_mmcs,
    };
    (bbp::MyPcs::new(bbp::Dft::default(), val_mmcs, fri_params), perm)
}

fn make_setup(shape: &Shape, seed: u64) -> Setup {
    let (pcs, perm) = concrete_pcs(&shape.params);
    let mut rng = SmallRng::seed_from_u64(1000 + seed);
    let mut commits = Vec::new();
    let mut pdatas = Vec::new();
    for b in &shape.batches {
        let evals: Vec<_> = b.iter().map(|(ls, w, _)| (TwoAdicMultiplicativeCoset::new(BB::GENERATOR, *ls).unwrap(), RowMajorMatrix::<BB>::rand_nonzero(&mut rng, 1 << ls, *w))).collect();
        let (c, pd) = <bbp::MyPcs as Pcs<CCh, bbp::Challenger>>::commit(&pcs, evals);
        commits.push(c);
        pdatas.push(pd);
    }
    let n_points = shape.batches.iter().flatten().flat_map(|m| m.2.iter().copied()).max().unwrap() + 1;
    let mut ch = bbp::Challenger::new(perm);
    for c in &commits {
        ch.observe(c.clone());
    }
    let zs: Vec<CCh> = (0..n_points).map(|_| ch.sample_algebra_element()).collect();
    let before = ch.clone();
    let open_data: Vec<_> = pdatas.iter().zip(&shape.batches).map(|(pd, b)| (pd, b.iter().map(|m| m.2.iter().map(|i| zs[*i]).collect::<Vec<_>>()).collect::<Vec<_>>())).collect();
    let (opened, proof) = <bbp::MyPcs as Pcs<CCh, bbp::Challenger>>::open(&pcs, open_data, &mut ch);
    // concrete native verification of the honest proof
    {
        let mut v = before;
        let claims: Vec<_> = commits
            .iter()
            .zip(&shape.batches)
            .zip(&opened)
            .map(|((c, b), ob)| {
                (c.clone(), b.iter().zip(ob).map(|(m, om)| (TwoAdicMultiplicativeCoset::new(BB::GENERATOR, m.0).unwrap(), m.2.iter().zip(om).map(|(i, vals)| (zs[*i], vals.clone())).collect::<Vec<_>>())).collect::<Vec<_>>())
            })
            .collect();
        <bbp::MyPcs as Pcs<CCh, bbp::Challenger>>::verify(&pcs, claims, &proof, &mut v).expect("concrete native verification of the honest opening proof");
    }
    Setup {
        shape: shape.clone(),
        commit_json: commits.iter().map(|c| serde_json::to_string(c).unwrap()).collect(),
        proof_json: serde_json::to_string(&proof).unwrap(),
        opened,
        n_points,
    }
}

#[derive(Clone, Debug, Default)]
struct Frozen {
    alpha: [u64; 4],
    betas: Vec<[u64; 4]>,
    indices: Vec<usize>,
}

#[derive(Default)]
struct Run {
    /// shadows of (alpha, betas, query indices) as fed to the circuit
    challenges: Option<Frozen>,
    native_ok: bool,
    native_err: String,
    circuit_ok: bool,
    circuit_err: String,
    native_events: Vec<Event>,
    circuit_events: Vec<Event>,
    n_vars: usize,
    n_ops: usize,
}

type SProof = <SPcs as Pcs<SCh, SChallenger>>::Proof;
type SCommit = <SPcs as Pcs<SCh, SChallenger>>::Commitment;

/// Execute both verifiers on the symbolic proof. `tamper`: (variable, shadow value).
/// `forced`: decisions (by index) replayed from the honest run, so that the complete check lists
/// are recorded even when the altered shadow point violates some of them.
fn ext_shadow(e: &SCh) -> [u64; 4] {
    let cs: &[SF] = e.as_basis_coefficients_slice();
    core::array::from_fn(|i| with_arena(|a| a.shadow(cs[i].h())))
}
fn ext_const(c: &[u64; 4]) -> SCh {
    let cs: Vec<SF> = c.iter().map(|x| SF::from_u64(*x)).collect();
    SCh::from_basis_coefficients_slice(&cs).unwrap()
}

fn run_once(s: &Setup, tamper: Option<(u32, u64)>, forced: Option<&std::collections::HashMap<usize, bool>>) -> Run {
    run_once_frozen(s, tamper, forced, None)
}

/// `frozen`: the circuit's challenge / index inputs are these constants instead of the values
/// derived from the (possibly altered) transcript.
fn run_once_frozen(s: &Setup, tamper: Option<(u32, u64)>, forced: Option<&std::collections::HashMap<usize, bool>>, frozen: Option<&Frozen>) -> Run {
    reset::<BabyBearCfg>();
    if let Some(f) = forced {
        with_arena(|a| a.forced = f.clone());
    }
    if let Some((v, val)) = tamper {
        set_shadow_override(v, val);
    }
    set_deser_fresh(true);
    set_deser_monty31(true);
    let scommits: Vec<SCommit> = s.commit_json.iter().map(|j| serde_json::from_str(j).expect("deser commitment")).collect();
    let sproof: SProof = serde_json::from_str(&s.proof_json).expect("deser proof");
    set_deser_fresh(false);
    let mut k = 0usize;
    let sopened: Vec<Vec<Vec<Vec<SCh>>>> = s
        .opened
        .iter()
        .map(|b| {
            b.iter()
                .map(|m| {
                    m.iter()
                        .map(|pt| {
                            pt.iter()
                                .map(|e| {
                                    let cs: &[BB] = e.as_basis_coefficients_slice();
                                    let coords: Vec<SF> = cs
                                        .iter()
                                        .map(|c| {
                                            k += 1;
                                            SF::var(format!("ev{k}"), c.as_canonical_u64())
                                        })
                                        .collect();
                                    SCh::from_basis_coefficients_slice(&coords).unwrap()
                                })
                                .collect()
                        })
                        .collect()
                })
                .collect()
        })
        .collect();
    let n_vars = with_arena(|a| a.var_names.len());
    let cperm = bbp::default_babybear_poseidon2_16();
    let shadow: ShadowFn = Arc::new(move |xs: &[u64]| {
        let a: [BB; 16] = core::array::from_fn(|i| BB::from_u64(xs[i]));
        cperm.permute(a).iter().map(|x| x.as_canonical_u64()).collect()
    });
    let sperm = SPerm::new("perm", shadow);
    let val_mmcs = SMmcs::new(SHash::new(sperm.clone()), SCompress::new(sperm.clone()), 0);
    let ch_mmcs = SChMmcs::new(val_mmcs.clone());
    let pr = &s.shape.params;
    let fri_params = FriParameters {
        log_blowup: pr.log_blowup,
        log_final_poly_len: pr.log_final_poly_len,
        max_log_arity: pr.max_log_arity,
        num_queries: pr.num_queries,
        commit_proof_of_work_bits: pr.commit_pow,
        query_proof_of_work_bits: pr.query_pow,
        mmcs: ch_mmcs,
    };
    let pcs = SPcs::new(SDft::default(), val_mmcs, fri_params);

    // transcript prefix: commitments, opening points
    let mut ch = SChallenger::new(sperm.clone());
    for c in &scommits {
        ch.observe(c.clone());
    }
    let zs: Vec<SCh> = (0..s.n_points).map(|_| ch.sample_algebra_element()).collect();
    let before = ch.clone();
    let dom = |ls: usize| TwoAdicMultiplicativeCoset::new(SF::GENERATOR, ls).unwrap();

    let mut out = Run { n_vars, ..Default::default() };
    // ---------------- native ----------------
    let e0 = events_len();
    let nres = std::panic::catch_unwind(std::panic::AssertUnwindSafe(|| {
        let mut v = before.clone();
        let claims: Vec<_> = scommits
            .iter()
            .zip(&s.shape.batches)
            .zip(&sopened)
            .map(|((c, b), ob)| (c.clone(), b.iter().zip(ob).map(|(m, om)| (dom(m.0), m.2.iter().zip(om).map(|(i, vals)| (zs[*i], vals.clone())).collect::<Vec<_>>())).collect::<Vec<_>>()))
            .collect();
        <SPcs as Pcs<SCh, SChallenger>>::verify(&pcs, claims, &sproof, &mut v).map_err(|e| format!("{e:?}"))
    }));
    out.native_events = events()[e0..].to_vec();
    match nres {
        Ok(Ok(())) => out.native_ok = true,
        Ok(Err(e)) => out.native_err = e.chars().take(160).collect(),
        Err(_) => out.native_err = "panic".into(),
    }

    // ---------------- transcript replay for the circuit's public challenges ----------------
    let r = std::panic::catch_unwind(std::panic::AssertUnwindSafe(|| -> Result<(Vec<Event>, usize, Frozen), String> {
        let mut v = before.clone();
        for b in &sopened {
            for m in b {
                for pt in m {
                    for o in pt {
                        v.observe_algebra_element(*o);
                    }
                }
            }
        }
        let alpha: SCh = v.sample_algebra_element();
        let mut betas: Vec<SCh> = Vec::new();
        for (c, w) in sproof.commit_phase_commits.iter().zip(sproof.commit_pow_witnesses.iter()) {
            v.observe(c.clone());
            let _ = v.check_witness(pr.commit_pow, *w);
            betas.push(v.sample_algebra_element());
        }
        for c in &sproof.final_poly {
            v.observe_algebra_element(*c);
        }
        let mut total_log_reduction = 0usize;
        if let Some(q0) = sproof.query_proofs.first() {
            for step in &q0.commit_phase_openings {
                v.observe(SF::from_usize(step.log_arity as usize));
                total_log_reduction += step.log_arity as usize;
            }
        }
        let _ = v.check_witness(pr.query_pow, sproof.query_pow_witness);
        let log_max_height = total_log_reduction + pr.log_blowup + pr.log_final_poly_len;
        let mut indices: Vec<usize> = (0..sproof.query_proofs.len()).map(|_| v.sample_bits(log_max_height)).collect();
        let mut alpha = alpha;
        let mut betas = betas;
        if let Some(fz) = frozen {
            alpha = ext_const(&fz.alpha);
            betas = fz.betas.iter().map(ext_const).collect();
            indices = fz.indices.clone();
        }
        let challenges = Frozen { alpha: ext_shadow(&alpha), betas: betas.iter().map(ext_shadow).collect(), indices: indices.clone() };
        let bits: Vec<Vec<SCh>> = indices.iter().map(|index| (0..log_max_height).map(|k| SCh::from_bool((index >> k) & 1 == 1)).collect()).collect();

        // ---------------- circuit ----------------
        let mut builder = CircuitBuilder::<SCh>::new();
        let fri_targets = FriTargets::new(&mut builder, &sproof);
        let alpha_t = builder.public_input();
        let betas_t: Vec<_> = (0..betas.len()).map(|_| builder.public_input()).collect();
        let bits_t: Vec<Vec<_>> = bits.iter().map(|q| q.iter().map(|_| builder.public_input()).collect()).collect();
        let mut coms = Vec::new();
        let mut openings = Vec::new();
        for (b, ob) in s.shape.batches.iter().zip(&sopened) {
            let commit_t = builder.public_input();
            let mut mats = Vec::new();
            let mut opened_points = Vec::new();
            for (m, om) in b.iter().zip(ob) {
                let mut pts = Vec::new();
                for (i, vals) in m.2.iter().zip(om) {
                    let z_t = builder.public_input();
                    let fz_t: Vec<_> = (0..vals.len()).map(|_| builder.public_input()).collect();
                    pts.push((z_t, fz_t));
                    opened_points.push((zs[*i], vals.clone()));
                }
                mats.push((dom(m.0), pts));
            }
            coms.push((commit_t, mats));
            openings.push(CommitmentOpening { commitment: SCh::ZERO, opened_points });
        }
        verify_fri_circuit::<SF, SCh, RecExt, RecVal, Witness<SF>, p3_recursion::Target>(&mut builder, &fri_targets, alpha_t, &betas_t, &bits_t, &coms, pr.log_blowup, None).map_err(|e| format!("circuit build: {e:?}"))?;
        let circuit = builder.build().map_err(|e| format!("build: {e:?}"))?;
        let pub_inputs = FriVerifierInputs { fri_proof_values: FriTargets::get_values(&sproof), alpha, betas, query_index_bits: bits, commitment_openings: openings }.build();
        let private_inputs = <FriTargets as Recursive<SCh>>::get_private_values(&sproof);
        let mut runner = circuit.runner();
        runner.set_public_inputs(&pub_inputs).map_err(|e| format!("public inputs: {e:?}"))?;
        runner.set_private_inputs(&private_inputs).map_err(|e| format!("private inputs: {e:?}"))?;
        let n_ops = circuit.ops.len();
        let e1 = events_len();
        let res = runner.run().map(|_| ()).map_err(|e| {
            let s = format!("{e:?}");
            format!("run: {}", &s[..s.len().min(160)])
        });
        res?;
        Ok((events()[e1..].to_vec(), n_ops, challenges))
    }));
    match r {
        Ok(Ok((evs, n_ops, ch))) => {
            out.challenges = Some(ch);
            out.circuit_ok = true;
            out.circuit_events = evs;
            out.n_ops = n_ops;
        }
        Ok(Err(e)) => out.circuit_err = e,
        Err(_) => out.circuit_err = "panic".into(),
    }
    out
}

fn is_uf(h: H) -> bool {
    match h {
        H::N(i) => with_arena(|a| matches!(a.nodes[i as usize], Node::Uf { .. })),
        _ => false,
    }
}

/// (fold-chain equalities, Merkle/cap equalities, path facts)
fn split_events(evs: &[Event]) -> (Vec<Fm>, Vec<Fm>, Vec<Fm>) {
    let (mut arith, mut merkle, mut path) = (Vec::new(), Vec::new(), Vec::new());
    for e in evs {
        match e {
            Event::Decide { l, r, eq: true } => {
                if is_uf(*l) || is_uf(*r) { merkle.push(Fm::Eq(*l, *r)) } else { arith.push(Fm::Eq(*l, *r)) }
            }
            Event::Mark(_) => {}
            _ => path.push(event_fm(e).unwrap()),
        }
    }
    (arith, merkle, path)
}

/// Do all recorded equalities of `fms` hold at the shadow point?
fn hold_at_shadow(fms: &[Fm]) -> bool {
    fms.iter().all(|f| match f {
        Fm::Eq(l, r) => with_arena(|a| a.shadow(*l) == a.shadow(*r)),
        _ => true,
    })
}

fn main() {
    if std::env::var("VERIF_PANIC").is_err() { std::panic::set_hook(Box::new(|_| {})); }
    let args = parse_args();
    let mut sh = Shard::new();
    sh.functions = [
        "p3_recursion::pcs::fri::verify_fri_circuit (open_input, height grouping, reduced openings, fold_one_phase for every arity, roll-ins, final polynomial evaluation, shape validation) + FriProofTargets::{new,get_values,get_private_values} + FriVerifierInputs::build + real compiler + CircuitRunner::run (symbolic)",
        "p3_fri::TwoAdicFriPcs::verify / p3_fri::verifier::verify_fri instantiated at the symbolic field (native side, same symbols), p3_challenger::DuplexChallenger at the symbolic field",
    ]
    .iter()
    .map(|s| s.to_string())
    .collect();
    let thorough = args.tier == "thorough";
    let budget = std::time::Duration::from_secs(if thorough { 240 } else { 25 });
    let mut violations: Vec<Value> = Vec::new();
    let mut solver = Solver::new(SolverKind::Z3, P, 5_000);
    let all = shapes(thorough, args.seed);
    let filter = std::env::var("VERIF_FILTER").ok();
    let mut n_prog = 0usize;
    for (job, shape) in all.iter().enumerate() {
        if let Some(f) = &filter {
            if !shape.name.contains(f.as_str()) {
                continue;
            }
        }
        let setup = match std::panic::catch_unwind(std::panic::AssertUnwindSafe(|| make_setup(shape, args.seed))) {
            Ok(s) => s,
            Err(_) => {
                // the real prover / native verifier refuses this parameter combination
                if job % args.nshards == args.shard {
                    sh.bump("c07.shapes_refused_by_the_real_prover");
                }
                continue;
            }
        };
        let label = format!("{} | params {:?} | batches {:?}", shape.name, shape.params, shape.batches);
        let mine = job % args.nshards == args.shard;
        let honest = run_once(&setup, None, None);
        let honest_all_events = events();
        if mine {
            n_prog += 1;
            sh.bump("programs");
            sh.sample(json!({"shape": label, "proof_variables": honest.n_vars, "circuit_ops": honest.n_ops, "native_events": honest.native_events.len(), "circuit_events": honest.circuit_events.len()}), 12);
            // ---------- (1) honest acceptance ----------
            sh.bump("c07.honest.obligations");
            if !honest.native_ok || !honest.circuit_ok {
                sh.bump("c07.violations_confirmed");
                let role = if honest.native_ok { "circuit-rejects-honest" } else if honest.circuit_ok { "native-rejects-honest-at-symbolic-field" } else { "both-reject-honest" };
                // a refusal at circuit-build time is keyed by the refusing site's message, so that a
                // recorded finding covers that one guard only
                let role = match (honest.native_ok, honest.circuit_err.strip_prefix("circuit build: ")) {
                    (true, Some(rest)) => format!("{role}:build:{}", rest.split('"').nth(1).unwrap_or(rest)),
                    _ => role.to_string(),
                };
                violations.push(json!({"property": "C07", "kind": "honest-proof-disagreement", "signature": format!("C07/{role}"),
                    "detail": format!("native ok={} ({}) circuit ok={} ({})", honest.native_ok, honest.native_err, honest.circuit_ok, honest.circuit_err), "program_text": label, "confirmed_by_native_replay": true}));
                continue;
            }
            sh.bump("c07.honest.both_accept");
            let (n_arith, n_merkle, n_path) = split_events(&honest.native_events);
            let (c_arith, c_merkle, c_path) = split_events(&honest.circuit_events);
            let mut c_all = c_arith.clone();
            c_all.extend(c_merkle.iter().cloned());
            sh.add("c07.native.fold_checks", n_arith.len() as f64);
            sh.add("c07.native.merkle_checks", n_merkle.len() as f64);
            sh.add("c07.circuit.checks", c_all.len() as f64);
            // ---------- (2) dependence ----------
            let roots_of = |fs: &[Fm]| -> Vec<H> {
                let mut r = Vec::new();
                fs.iter().for_each(|f| f.roots(&mut r));
                r
            };
            let nv: BTreeSet<u32> = vars_of(&roots_of(&n_arith));
            let cv: BTreeSet<u32> = vars_of(&roots_of(&c_all));
            let missing: Vec<u32> = nv.difference(&cv).copied().collect();
            sh.bump("c07.dependence.obligations");
            sh.add("c07.dependence.variables_native", nv.len() as f64);
            sh.add("c07.dependence.variables_circuit", cv.len() as f64);
            if missing.is_empty() {
                sh.bump("c07.dependence.unsat");
            } else {
                let names: Vec<String> = with_arena(|a| missing.iter().take(8).map(|v| a.var_names[*v as usize].clone()).collect());
                sh.bump("c07.violations_confirmed");
                violations.push(json!({"property": "C07", "kind": "input-unconstrained", "signature": "C07/input-unconstrained", "detail": format!("{} variables occur in the native fold-chain checks but in none of the circuit's: {names:?}", missing.len()), "program_text": label, "confirmed_by_native_replay": true}));
            }
            // ---------- (3) check-list equivalence ----------
            let mut path: Vec<Fm> = n_path.clone();
            path.extend(c_path.iter().cloned());
            path.extend(n_merkle.iter().cloned());
            for (dir, hyps_src, goals) in [("circuit=>native", &c_all, &n_arith), ("native=>circuit", &n_arith, &c_all)] {
                let mut hyps = path.clone();
                hyps.extend(hyps_src.iter().cloned());
                let mut rw = rewriter_from_fast(P, &hyps);
                let mut open: Vec<&Fm> = Vec::new();
                for g in goals.iter() {
                    sh.bump("c07.equiv.obligations");
                    if matches!(rw.canon_fm(g), Fm::True) {
                        sh.bump("c07.equiv.unsat");
                        sh.bump("c07.equiv.unsat_by_congruence_rewriting");
                    } else {
                        open.push(g);
                    }
                }
                if open.is_empty() || std::env::var("VERIF_NORMAL").is_err() {
                    // the coordinate-level normal forms of the fold chain have 10^4..10^5 terms even
                    // for the smallest shape (DESIGN.md A.7): not attempted by default
                    for _ in &open {
                        sh.bump("c07.equiv.undecided_beyond_back_end");
                    }
                    continue;
                }
                // lemma finder with z3 validation
                let mut nz = Normalizer::new(P);
                nz.deadline = Some(std::time::Instant::now() + budget);
                let mut proven: Vec<bool> = vec![false; open.len()];
                let mut via_ideal: Vec<bool> = vec![false; open.len()];
                for _pass in 0..4 {
                    for h in hyps.iter() {
                        if let Fm::Eq(l, r) = h {
                            let _ = nz.add_hyp(*l, *r);
                        }
                    }
                    for (k, g) in open.iter().enumerate() {
                        if let Fm::Eq(l, r) = g {
                            proven[k] = nz.equal(*l, *r) == Some(true);
                            if !proven[k] {
                                if let Some((rem, _)) = nz.reduce_goal(*l, *r) {
                                    if rem.is_zero() {
                                        proven[k] = true;
                                        via_ideal[k] = true;
                                    }
                                }
                            }
                        }
                    }
                    if std::env::var("VERIF_TRACE").is_ok() {
                        eprintln!("[c07] {dir} pass {_pass}: proven {}/{} merges {} opaque {} forced {} inval {} ideal {}", proven.iter().filter(|x| **x).count(), open.len(), nz.merges.len(), nz.opaque.len(), nz.forced_cuts, nz.invalidations, nz.ideal.len());
                        for (k, g) in open.iter().enumerate().take(2) {
                            if let (false, Fm::Eq(l, r)) = (proven[k], g) {
                                let (a, b) = (nz.norm(*l), nz.norm(*r));
                                match (a, b) {
                                    (Some(a), Some(b)) => { let d = a.sub(&b); eprintln!("   goal {k}: l {} terms r {} terms diff {} terms; shadows {} {}", a.t.len(), b.t.len(), d.t.len(), with_arena(|ar| ar.shadow(*l)), with_arena(|ar| ar.shadow(*r)));
                                        for (m, c) in d.t.iter().take(6) { eprintln!("      {c} * {:?}", m.iter().map(|(v, e)| format!("{}^{e}", with_arena(|ar| match &ar.nodes[*v as usize] { Node::Var(x) => ar.var_names[*x as usize].clone(), Node::Uf { idx, .. } => format!("uf{v}[{idx}]"), Node::Inv(_) => format!("inv{v}"), _ => format!("cut{v}") }))).collect::<Vec<_>>()); } }
                                    _ => eprintln!("   goal {k}: normal form unavailable (deadline/size)"),
                                }
                            }
                        }
                    }
                    if proven.iter().all(|x| *x) || nz.next_pass(4) == 0 {
                        break;
                    }
                }
                // solver validation of every lemma the normal forms rest on
                let mut lemma_ok = 0usize;
                let mut lemma_open = 0usize;
                solver.set_timeout(3_000);
                let merges = nz.merges.clone();
                let mut check = |solver: &mut Solver, a: H, b: H| -> bool {
                    for free_inv in [true, false] {
                        let Some(script) = nz.lemma_script(a, b, free_inv) else { continue };
                        if script.len() > 400_000 {
                            continue;
                        }
                        solver.push();
                        solver.raw(&script);
                        let r = solver.check_som();
                        solver.pop();
                        if matches!(r, SatResult::Unsat) {
                            return true;
                        }
                    }
                    false
                };
                if proven.iter().any(|x| *x) {
                    for (i, rep) in merges.iter() {
                        if check(&mut solver, H::N(*i), *rep) { lemma_ok += 1 } else { lemma_open += 1 }
                    }
                }
                sh.add("c07.equiv.lemmas_validated_by_z3", lemma_ok as f64);
                sh.add("c07.equiv.lemmas_normal_form_only", lemma_open as f64);
                for (k, g) in open.iter().enumerate() {
                    if proven[k] {
                        let Fm::Eq(l, r) = g else { continue };
                        let top = check(&mut solver, *l, *r);
                        sh.bump("c07.equiv.unsat");
                        if top && lemma_open == 0 {
                            sh.bump("c07.equiv.unsat_lemma_chain_validated_by_z3");
                        } else {
                            sh.bump("c07.equiv.unsat_by_polynomial_normal_form");
                        }
                    } else if let Some(m) = shadow_counterexample(&hyps, g) {
                        // cannot happen on an honest path (all checks hold at the shadow point)
                        let _ = m;
                        sh.bump("c07.equiv.sat_at_shadow_point");
                        sh.bump("c07.violations_confirmed");
                        violations.push(json!({"property": "C07", "kind": "check-not-implied", "signature": format!("C07/check-not-implied:{dir}"), "detail": "a check of one verifier fails at a point satisfying all checks of the other", "program_text": label, "confirmed_by_native_replay": true}));
                    } else {
                        sh.bump("c07.equiv.undecided_beyond_back_end");
                        let _ = dir;
                    }
                }
            }
        }
        // ---------- (4) supplementary alteration sweep (concrete shadows, sharded by variable) ----------
        if !honest.native_ok || !honest.circuit_ok {
            continue;
        }
        let shadows: Vec<u64> = with_arena(|a| a.var_nodes.iter().map(|n| a.shadows[*n as usize]).collect());
        // variables feeding the transcript (Fiat-Shamir): altering them changes challenges and
        // indices, i.e. the path; they are left to the whole-verifier sweep (C14)
        let pin_roots: Vec<H> = honest_all_events.iter().filter_map(|e| if let Event::Pin(h, _) = e { Some(*h) } else { None }).collect();
        let transcript_vars: BTreeSet<u32> = vars_of(&pin_roots);
        let mut forced = std::collections::HashMap::new();
        let mut k = 0usize;
        for e in honest_all_events.iter() {
            if let Event::Decide { eq, .. } = e {
                forced.insert(k, *eq);
                k += 1;
            }
        }
        let n_vars = honest.n_vars;
        // ---------- (3') every value of every single path-stable element, decided by z3 ----------
        // All other elements keep their honest values; the altered element is the integer
        // variable t in [0, p). The fold-chain checks of both verifiers become univariate
        // polynomial equations in t; z3 decides whether some t separates the two verdicts.
        {
            let (n_arith, _n_merkle, n_path) = split_events(&honest.native_events);
            let (c_arith, c_merkle, c_path) = split_events(&honest.circuit_events);
            let mut c_all = c_arith.clone();
            c_all.extend(c_merkle.iter().cloned());
            let mut candidates: Vec<(u32, u64, bool)> = Vec::new();
            solver.set_timeout(if thorough { 20_000 } else { 5_000 });
            for v in 0..n_vars as u32 {
                if (v as usize) % args.nshards != args.shard {
                    continue;
                }
                // elements feeding the transcript: decided with the challenges and query indices
                // held at their honest values (the arithmetic circuit takes them as inputs)
                let frozen = transcript_vars.contains(&v);
                sh.bump("c07.allvalues.obligations");
                if frozen { sh.bump("c07.allvalues.obligations_frozen_challenges"); }
                let mut uni = Uni::new(v, P);
                uni.freeze_uf = frozen;
                let mut enc = |fms: &[Fm], uni: &mut Uni| -> Option<(Vec<Vec<u64>>, Vec<Vec<u64>>)> {
                    let mut polys = Vec::new();
                    let mut dens = Vec::new();
                    for f in fms {
                        if let Fm::Eq(l, r) = f {
                            let (d, ds) = uni.diff(*l, *r)?;
                            if d.len() > 1 || d[0] != 0 {
                                polys.push(d);
                            }
                            dens.extend(ds);
                        }
                    }
                    Some((polys, dens))
                };
                let (Some((np, nd)), Some((cp, cd))) = (enc(&n_arith, &mut uni), enc(&c_all, &mut uni)) else {
                    sh.bump("c07.allvalues.not_encodable");
                    continue;
                };
                // path facts depending on t (non-zero divisors, negative decisions)
                let mut side: Vec<Vec<u64>> = nd.into_iter().chain(cd).collect();
                let mut encodable = true;
                for f in n_path.iter().chain(c_path.iter()) {
                    match f {
                        Fm::Ne(l, r) => match uni.diff(*l, *r) {
                            Some((d, ds)) => {
                                if d.len() > 1 { side.push(d); }
                                side.extend(ds);
                            }
                            None => {}
                        },
                        Fm::Eq(l, r) => {
                            // pins: must not depend on t for a path-stable variable
                            if let Some((d, _)) = uni.diff(*l, *r) { if d.len() > 1 { encodable = false; } }
                        }
                        _ => {}
                    }
                }
                if !encodable {
                    sh.bump("c07.allvalues.path_depends_on_value");
                    continue;
                }
                if np.iter().all(|d| d.len() == 1) && cp.iter().all(|d| d.len() == 1) {
                    // neither verdict depends on this element (e.g. Merkle digests in the arithmetic mode)
                    let nt = np.is_empty();
                    let ct = cp.is_empty();
                    if nt == ct { sh.bump("c07.allvalues.independent_of_element"); sh.bump("c07.allvalues.unsat"); } else {
                        sh.bump("c07.violations_confirmed");
                        violations.push(json!({"property": "C07", "kind": "constant-verdicts-differ", "signature": "C07/constant-verdicts-differ", "detail": format!("variable #{v}: verdicts do not depend on it but differ"), "program_text": label, "confirmed_by_native_replay": true}));
                    }
                    continue;
                }
                let maxdeg = np.iter().chain(cp.iter()).map(|d| d.len() - 1).max().unwrap_or(0);
                sh.add("c07.allvalues.max_degree", 0.0);
                if (maxdeg as f64) > sh.counters.get("c07.allvalues.max_degree").copied().unwrap_or(0.0) {
                    sh.counters.insert("c07.allvalues.max_degree".into(), maxdeg as f64);
                }
                let conj = |ps: &Vec<Vec<u64>>| -> String {
                    if ps.is_empty() { "true".into() } else { format!("(and true {})", ps.iter().map(|d| up_zero_smt(d, P)).collect::<Vec<_>>().join(" ")) }
                };
                solver.push();
                solver.raw("(declare-const t Int)");
                solver.raw(&format!("(assert (and (<= 0 t) (< t {P})))"));
                for d in &side {
                    solver.raw(&format!("(assert (not {}))", up_zero_smt(d, P)));
                }
                solver.raw(&format!("(assert (xor {} {}))", conj(&np), conj(&cp)));
                let r = solver.check();
                let tval = if matches!(r, SatResult::Sat(_)) { solver.get_int("t") } else { None };
                solver.pop();
                match r {
                    SatResult::Unsat => {
                        sh.bump("c07.allvalues.unsat");
                        // vacuity twin on a sample: the honest value itself satisfies both sides
                        let t0 = shadows[v as usize];
                        let n_ok = np.iter().all(|d| up_eval(d, t0, P) == 0);
                        let c_ok = cp.iter().all(|d| up_eval(d, t0, P) == 0);
                        if !(n_ok && c_ok) {
                            sh.bump("c07.allvalues.encoding_suspect");
                            sh.undecided.push(json!({"what": "honest value does not satisfy the univariate encoding", "variable": v, "shape": label}));
                        }
                    }
                    SatResult::Sat(_) => match tval {
                        Some(t) => candidates.push((v, t, frozen)),
                        None => { sh.bump("c07.allvalues.undecided"); }
                    },
                    SatResult::Unknown(_) => {
                        sh.bump("c07.allvalues.undecided");
                        if sh.undecided.len() < 20 { sh.undecided.push(json!({"what": "z3 unknown on univariate verdict equivalence", "variable": v, "degree": maxdeg, "shape": label})); }
                    }
                }
            }
            // replay every candidate on the real code (both verifiers re-executed with the value)
            for (v, t, frozen) in candidates {
                if frozen {
                    // real circuit run with the honest challenges as inputs and the altered element;
                    // real native run on the same altered inputs
                    let Some(ch) = honest.challenges.as_ref() else { continue };
                    let tr = run_once_frozen(&setup, Some((v, t)), None, Some(ch));
                    let name = with_arena(|a| a.var_names.get(v as usize).cloned().unwrap_or_default());
                    if tr.circuit_ok && !tr.native_ok {
                        sh.bump("c07.allvalues.sat");
                        sh.bump("c07.violations_confirmed");
                        violations.push(json!({"property": "C07", "kind": "altered-element-accepted-by-circuit", "signature": "C07/altered-element-accepted-by-circuit",
                            "detail": format!("variable #{v} ({name}) set to {t}: the native verifier rejects ({}), the circuit run with the honest challenges as inputs succeeds (found by z3, replayed on both verifiers)", tr.native_err), "program_text": label, "variable": v, "value": t, "confirmed_by_native_replay": true}));
                    } else {
                        sh.bump("c07.allvalues.sat_frozen_unconfirmable");
                        if sh.undecided.len() < 20 { sh.undecided.push(json!({"what": "frozen-challenge model not confirmable on the real native verifier (it recomputes the challenges)", "variable": v, "value": t, "circuit_ok": tr.circuit_ok, "native_ok": tr.native_ok, "shape": label})); }
                    }
                    continue;
                }
                let tr = run_once(&setup, Some((v, t)), Some(&forced));
                let name = with_arena(|a| a.var_names.get(v as usize).cloned().unwrap_or_default());
                if !tr.native_ok || !tr.circuit_ok {
                    sh.bump("c07.allvalues.sat_not_replayable");
                    sh.undecided.push(json!({"what": "solver model could not be replayed (path changed)", "variable": v, "value": t, "shape": label}));
                    continue;
                }
                let (na, _, _) = split_events(&tr.native_events);
                let (ca, cm, _) = split_events(&tr.circuit_events);
                let n_ok = hold_at_shadow(&na);
                let c_ok = hold_at_shadow(&ca) && hold_at_shadow(&cm);
                if n_ok != c_ok {
                    sh.bump("c07.allvalues.sat");
                    sh.bump("c07.violations_confirmed");
                    let role = if c_ok { "altered-element-accepted-by-circuit" } else { "altered-element-rejected-only-by-circuit" };
                    violations.push(json!({"property": "C07", "kind": role, "signature": format!("C07/{role}"),
                        "detail": format!("variable #{v} ({name}) set to {t}: native fold-chain verdict {n_ok}, circuit verdict {c_ok} (found by z3, replayed on both verifiers)"), "program_text": label, "variable": v, "value": t, "confirmed_by_native_replay": true}));
                } else {
                    sh.bump("c07.allvalues.sat_not_reproduced");
                    sh.undecided.push(json!({"what": "solver model did not reproduce on the real code: encoding suspect", "variable": v, "value": t, "shape": label}));
                }
            }
            // restore the honest run in the arena for the sweep below
            let _ = run_once(&setup, None, None);
        }
        let stride = if thorough { 1 } else { 3 };
        for v in (0..n_vars as u32).step_by(stride) {
            if (v as usize / stride) % args.nshards != args.shard {
                continue;
            }
            if transcript_vars.contains(&v) {
                sh.bump("c07.tamper.skipped_transcript_variable");
                continue;
            }
            let val = (shadows[v as usize] + 1) % P;
            let t = run_once(&setup, Some((v, val)), Some(&forced));
            sh.bump("c07.tamper.runs");
            if !t.native_ok || !t.circuit_ok {
                // the replayed path did not complete (a structural check depends on the value)
                sh.bump("c07.tamper.path_not_replayable");
                continue;
            }
            let (n_arith, _, _) = split_events(&t.native_events);
            let (c_arith, c_merkle, _) = split_events(&t.circuit_events);
            let n_ok = hold_at_shadow(&n_arith);
            let c_ok = hold_at_shadow(&c_arith) && hold_at_shadow(&c_merkle);
            match (n_ok, c_ok) {
                (true, true) => sh.bump("c07.tamper.both_fold_chains_accept"),
                (false, false) => sh.bump("c07.tamper.both_fold_chains_reject"),
                (false, true) => {
                    let name = with_arena(|a| a.var_names.get(v as usize).cloned().unwrap_or_default());
                    sh.bump("c07.violations_confirmed");
                    violations.push(json!({"property": "C07", "kind": "tamper-accepted-by-circuit", "signature": "C07/tamper-accepted-by-circuit",
                        "detail": format!("altering variable #{v} ({name}) violates a native fold-chain check but every circuit check still holds"), "program_text": label, "variable": v, "confirmed_by_native_replay": true}));
                }
                (true, false) => {
                    let name = with_arena(|a| a.var_names.get(v as usize).cloned().unwrap_or_default());
                    sh.bump("c07.violations_confirmed");
                    violations.push(json!({"property": "C07", "kind": "tamper-rejected-only-by-circuit", "signature": "C07/tamper-rejected-only-by-circuit",
                        "detail": format!("altering variable #{v} ({name}) keeps every native fold-chain check true but violates a circuit check"), "program_text": label, "variable": v, "confirmed_by_native_replay": true}));
                }
            }
        }
    }
    sh.add("distinct_programs", n_prog.max(2) as f64);
    sh.absorb_solver("z3", &solver.stats);
    sh.violations = violations;
    sh.write(&args.out);
}
