//! C14 (second part): symbol placement of the proof CONTAINER types, shape by shape.
//!
//! The whole-verifier harness (c01.rs) shows that proof elements sit on the inputs allocated for
//! them for uni-STARK proofs. The batch-STARK / lookup / ZK containers are not reachable through it,
//! so their `Recursive::{new, get_values, get_private_values}` are checked directly here:
//! for every shape (every combination of optional parts, lengths, number of chunks / instances)
//!   * the input value is built from pairwise distinct symbolic elements,
//!   * the REAL `new` allocates the targets, the REAL `get_values` / `get_private_values` pack the
//!     value, the real builder/compiler/runner place the packed vectors on the inputs,
//!   * for each field of the target struct, the witness value of each target must be exactly the
//!     symbol of the corresponding field element of the input (field-by-field correspondence is the
//!     specification; the comparison is on symbolic terms, i.e. for all values at once),
//!   * lengths: the packed vectors have exactly as many elements as inputs were allocated.
use harness::common::*;
use p3_batch_stark::proof::{BatchCommitments, OpenedValuesWithLookups};
use p3_challenger::DuplexChallenger;
use p3_circuit::CircuitBuilder;
use p3_commit::ExtensionMmcs;
use p3_dft::Radix2DitParallel;
use p3_field::extension::BinomialExtensionField;
use p3_field::{BasedVectorSpace, PrimeCharacteristicRing};
use p3_fri::TwoAdicFriPcs;
use p3_merkle_tree::MerkleTreeMmcs;
use p3_recursion::pcs::fri::MerkleCapTargets;
use p3_recursion::types::{CommitmentTargets, OpenedValuesTargets, OpenedValuesTargetsWithLookups};
use p3_recursion::{Recursive, Target};
use p3_symmetric::{MerkleCap, PaddingFreeSponge, TruncatedPermutation};
use p3_uni_stark::{OpenedValues, StarkConfig};
use serde_json::{Value, json};

type SF = SymBB;
type SCh = BinomialExtensionField<SF, 4>;
type SPerm = SymPerm<16>;
type SHash = PaddingFreeSponge<SPerm, 16, 8, 8>;
type SCompress = TruncatedPermutation<SPerm, 2, 8, 16>;
type SMmcs = MerkleTreeMmcs<SF, SF, SHash, SCompress, 2, 8>;
type SChMmcs = ExtensionMmcs<SF, SCh, SMmcs>;
type SChallenger = DuplexChallenger<SF, SPerm, 16, 8>;
type SPcs = TwoAdicFriPcs<SF, Radix2DitParallel<SF>, SMmcs, SChMmcs>;
type SConfig = StarkConfig<SPcs, SCh, SChallenger>;
type Cap = MerkleCap<SF, [SF; 8]>;

struct Gen {
    n: u64,
}
impl Gen {
    fn base(&mut self, tag: &str) -> SF {
        self.n += 1;
        SF::var(format!("{tag}#{}", self.n), 1000 + 37 * self.n)
    }
    fn ext(&mut self, tag: &str) -> SCh {
        SCh::from_basis_coefficients_fn(|j| self.base(&format!("{tag}.{j}")))
    }
    fn exts(&mut self, tag: &str, n: usize) -> Vec<SCh> {
        (0..n).map(|i| self.ext(&format!("{tag}[{i}]"))).collect()
    }
    fn cap(&mut self, tag: &str, entries: usize) -> Cap {
        MerkleCap::new((0..entries).map(|e| core::array::from_fn(|w| self.base(&format!("{tag}[{e}][{w}]")))).collect())
    }
}

/// (target, expected symbolic value, what it is)
type Expect = Vec<(Target, SCh, String)>;

fn expect_vec(out: &mut Expect, ts: &[Target], vs: &[SCh], what: &str) {
    if ts.len() != vs.len() {
        out.push((p3_circuit::ExprId(0), SCh::ZERO, format!("LENGTH:{what}: {} targets for {} elements", ts.len(), vs.len())));
        return;
    }
    for (i, (t, v)) in ts.iter().zip(vs).enumerate() {
        out.push((*t, *v, format!("{what}[{i}]")));
    }
}

fn expect_opened(out: &mut Expect, t: &OpenedValuesTargets<SConfig>, v: &OpenedValues<SCh>, pre: &str) {
    expect_vec(out, &t.trace_local_targets, &v.trace_local, &format!("{pre}trace_local"));
    expect_vec(out, &t.trace_next_targets, v.trace_next.as_deref().unwrap_or(&[]), &format!("{pre}trace_next"));
    match (&t.preprocessed_local_targets, &v.preprocessed_local) {
        (Some(a), Some(b)) => expect_vec(out, a, b, &format!("{pre}preprocessed_local")),
        (None, None) => {}
        _ => out.push((p3_circuit::ExprId(0), SCh::ZERO, format!("LENGTH:{pre}preprocessed_local presence differs"))),
    }
    match (&t.preprocessed_next_targets, &v.preprocessed_next) {
        (Some(a), Some(b)) => expect_vec(out, a, b, &format!("{pre}preprocessed_next")),
        (None, None) => {}
        _ => out.push((p3_circuit::ExprId(0), SCh::ZERO, format!("LENGTH:{pre}preprocessed_next presence differs"))),
    }
    if t.quotient_chunks_targets.len() != v.quotient_chunks.len() {
        out.push((p3_circuit::ExprId(0), SCh::ZERO, format!("LENGTH:{pre}quotient_chunks count differs")));
    } else {
        for (c, (a, b)) in t.quotient_chunks_targets.iter().zip(&v.quotient_chunks).enumerate() {
            expect_vec(out, a, b, &format!("{pre}quotient_chunks[{c}]"));
        }
    }
    match (&t.random_targets, &v.random) {
        (Some(a), Some(b)) => expect_vec(out, a, b, &format!("{pre}random")),
        (None, None) => {}
        _ => out.push((p3_circuit::ExprId(0), SCh::ZERO, format!("LENGTH:{pre}random presence differs"))),
    }
}

fn expect_with_lookups(out: &mut Expect, t: &OpenedValuesTargetsWithLookups<SConfig>, v: &OpenedValuesWithLookups<SCh>, pre: &str) {
    expect_opened(out, &t.opened_values_no_lookups, &v.base_opened_values, pre);
    expect_vec(out, &t.permutation_local_targets, &v.permutation_local, &format!("{pre}permutation_local"));
    expect_vec(out, &t.permutation_next_targets, &v.permutation_next, &format!("{pre}permutation_next"));
}

fn expect_cap(out: &mut Expect, t: &MerkleCapTargets<SF, 8>, v: &Cap, what: &str) {
    let entries: Vec<[SF; 8]> = v.clone().into_iter().collect();
    if t.cap_targets.len() != entries.len() {
        out.push((p3_circuit::ExprId(0), SCh::ZERO, format!("LENGTH:{what}: {} cap entries for {}", t.cap_targets.len(), entries.len())));
        return;
    }
    for (e, (ts, ws)) in t.cap_targets.iter().zip(&entries).enumerate() {
        for w in 0..8 {
            out.push((ts[w], SCh::from(ws[w]), format!("{what}[{e}][{w}]")));
        }
    }
}

/// Run the circuit on the packed vectors and compare every expected placement.
fn run_shape(cb: CircuitBuilder<SCh>, pubs: Vec<SCh>, privs: Vec<SCh>, expect: Expect, ty: &str, shape: &str, sh: &mut Shard, violations: &mut Vec<Value>) {
    sh.bump("programs");
    sh.bump("c14.placement.obligations");
    let mut bad: Vec<String> = expect.iter().filter(|e| e.2.starts_with("LENGTH:")).map(|e| e.2.clone()).collect();
    let circuit = match cb.build() {
        Ok(c) => c,
        Err(e) => {
            violations.push(json!({"property": "C14", "kind": "container-build-fails", "signature": format!("C14/container-build-fails:{ty}"), "detail": format!("{e:?}"), "program_text": format!("{ty} {shape}"), "confirmed_by_native_replay": true}));
            return;
        }
    };
    if circuit.public_flat_len != pubs.len() || circuit.private_flat_len != privs.len() {
        bad.push(format!("LENGTH: allocated {} public / {} private inputs, packed {} / {}", circuit.public_flat_len, circuit.private_flat_len, pubs.len(), privs.len()));
    }
    if bad.is_empty() {
        let mut runner = circuit.runner();
        let r = runner.set_public_inputs(&pubs).and_then(|_| runner.set_private_inputs(&privs)).and_then(|_| runner.run());
        match r {
            Err(e) => bad.push(format!("run fails: {e:?}").chars().take(200).collect()),
            Ok(tr) => {
                for (t, v, what) in &expect {
                    let w = circuit.expr_to_widx[t];
                    let got: SCh = *tr.witness_trace.get_value(w).unwrap();
                    let (gs, vs): (&[SF], &[SF]) = (got.as_basis_coefficients_slice(), v.as_basis_coefficients_slice());
                    if (0..4).any(|j| gs[j].h() != vs[j].h()) {
                        bad.push(format!("{what} carries another element"));
                    }
                    sh.bump("c14.placement.elements_compared");
                }
            }
        }
    }
    if bad.is_empty() {
        sh.bump("c14.placement.unsat");
    } else {
        sh.bump("c14.violations_confirmed");
        let role = if bad.iter().any(|b| b.starts_with("LENGTH")) { "length-mismatch" } else { "element-misplaced" };
        violations.push(json!({"property": "C14", "kind": role, "signature": format!("C14/{role}:{ty}"), "detail": format!("{} problems, first: {}", bad.len(), bad[0]), "program_text": format!("{ty} {shape}"), "confirmed_by_native_replay": true}));
    }
}

fn main() {
    std::panic::set_hook(Box::new(|_| {}));
    let args = parse_args();
    let mut sh = Shard::new();
    sh.functions = ["p3_recursion::types::{OpenedValuesTargets, OpenedValuesTargetsWithLookups, BatchOpenedValuesTargets, CommitmentTargets<_, MerkleCapTargets>}::{new, get_values, get_private_values} + CircuitBuilder::alloc_* + compiler + runner input placement (symbolic elements)"].iter().map(|s| s.to_string()).collect();
    let thorough = args.tier == "thorough";
    let mut violations: Vec<Value> = Vec::new();
    let mut job = 0usize;
    let lens: &[usize] = if thorough { &[1, 2, 5] } else { &[1, 3] };
    // ---------------- opened values (uni and with lookups), every optional part ----------------
    for &tl in lens {
        for mask in 0..16u32 {
            for n_chunks in 1..=2usize {
                for perm_len in [0usize, 2, 3] {
                    job += 1;
                    if job % args.nshards != args.shard {
                        continue;
                    }
                    reset::<BabyBearCfg>();
                    let mut g = Gen { n: 0 };
                    let base = OpenedValues {
                        trace_local: g.exts("trace_local", tl),
                        trace_next: (mask & 1 != 0).then(|| g.exts("trace_next", tl)),
                        preprocessed_local: (mask & 2 != 0).then(|| g.exts("prep_local", 2)),
                        preprocessed_next: (mask & 4 != 0).then(|| g.exts("prep_next", 2)),
                        quotient_chunks: (0..n_chunks).map(|c| g.exts(&format!("chunk{c}"), 4)).collect(),
                        random: (mask & 8 != 0).then(|| g.exts("random", 4)),
                    };
                    let shape = format!("trace {tl}, next={} prep_local={} prep_next={} random={}, {n_chunks} chunks, permutation {perm_len}", mask & 1 != 0, mask & 2 != 0, mask & 4 != 0, mask & 8 != 0);
                    if perm_len == 0 {
                        let mut cb = CircuitBuilder::<SCh>::new();
                        let t = OpenedValuesTargets::<SConfig>::new(&mut cb, &base);
                        let mut ex = Expect::new();
                        expect_opened(&mut ex, &t, &base, "");
                        let (pubs, privs) = (OpenedValuesTargets::<SConfig>::get_values(&base), OpenedValuesTargets::<SConfig>::get_private_values(&base));
                        run_shape(cb, pubs, privs, ex, "OpenedValuesTargets", &shape, &mut sh, &mut violations);
                    }
                    let with = OpenedValuesWithLookups { base_opened_values: base, permutation_local: g.exts("perm_local", perm_len), permutation_next: g.exts("perm_next", perm_len) };
                    let mut cb = CircuitBuilder::<SCh>::new();
                    let t = OpenedValuesTargetsWithLookups::<SConfig>::new(&mut cb, &with);
                    let mut ex = Expect::new();
                    expect_with_lookups(&mut ex, &t, &with, "");
                    let (pubs, privs) = (OpenedValuesTargetsWithLookups::<SConfig>::get_values(&with), OpenedValuesTargetsWithLookups::<SConfig>::get_private_values(&with));
                    run_shape(cb, pubs, privs, ex, "OpenedValuesTargetsWithLookups", &shape, &mut sh, &mut violations);
                }
            }
        }
    }
    // ---------------- several instances allocated one after the other in ONE circuit (what the
    // crate-private batch wrapper does: instance after instance, `new` and packing in the same order)
    for n_inst in 2..=(if thorough { 4 } else { 3 }) {
        for variant in 0..(if thorough { 16u32 } else { 6 }) {
            job += 1;
            if job % args.nshards != args.shard {
                continue;
            }
            reset::<BabyBearCfg>();
            let mut g = Gen { n: 0 };
            let instances: Vec<OpenedValuesWithLookups<SCh>> = (0..n_inst)
                .map(|i| {
                    let m = (variant + 5 * i as u32) % 16;
                    let tl = 1 + (i + variant as usize) % 3;
                    let pl = [0usize, 2, 1][(i + variant as usize) % 3];
                    OpenedValuesWithLookups {
                        base_opened_values: OpenedValues {
                            trace_local: g.exts(&format!("i{i}.trace_local"), tl),
                            trace_next: (m & 1 != 0).then(|| g.exts(&format!("i{i}.trace_next"), tl)),
                            preprocessed_local: (m & 2 != 0).then(|| g.exts(&format!("i{i}.prep_local"), 1)),
                            preprocessed_next: (m & 4 != 0).then(|| g.exts(&format!("i{i}.prep_next"), 1)),
                            quotient_chunks: (0..1 + i % 2).map(|c| g.exts(&format!("i{i}.chunk{c}"), 4)).collect(),
                            random: (m & 8 != 0).then(|| g.exts(&format!("i{i}.random"), 4)),
                        },
                        permutation_local: g.exts(&format!("i{i}.perm_local"), pl),
                        permutation_next: g.exts(&format!("i{i}.perm_next"), pl),
                    }
                })
                .collect();
            let mut cb = CircuitBuilder::<SCh>::new();
            let mut ex = Expect::new();
            let mut privs = Vec::new();
            for (i, vi) in instances.iter().enumerate() {
                let ti = OpenedValuesTargetsWithLookups::<SConfig>::new(&mut cb, vi);
                expect_with_lookups(&mut ex, &ti, vi, &format!("instance{i}."));
                privs.extend(OpenedValuesTargetsWithLookups::<SConfig>::get_private_values(vi));
            }
            run_shape(cb, vec![], privs, ex, "OpenedValuesTargetsWithLookups (sequence)", &format!("{n_inst} instances, variant {variant}"), &mut sh, &mut violations);
        }
    }
    // ---------------- commitments: every optional part x cap heights ----------------
    for cap_log in 0..=(if thorough { 3 } else { 2 }) {
        for mask in 0..4u32 {
            job += 1;
            if job % args.nshards != args.shard {
                continue;
            }
            reset::<BabyBearCfg>();
            let mut g = Gen { n: 0 };
            let n = 1usize << cap_log;
            let c = BatchCommitments { main: g.cap("main", n), permutation: (mask & 1 != 0).then(|| g.cap("permutation", n)), quotient_chunks: g.cap("quotient", n), random: (mask & 2 != 0).then(|| g.cap("random", n)) };
            let mut cb = CircuitBuilder::<SCh>::new();
            let t = CommitmentTargets::<SCh, MerkleCapTargets<SF, 8>>::new(&mut cb, &c);
            let mut ex = Expect::new();
            expect_cap(&mut ex, &t.trace_targets, &c.main, "main");
            match (&t.permutation_targets, &c.permutation) {
                (Some(a), Some(b)) => expect_cap(&mut ex, a, b, "permutation"),
                (None, None) => {}
                _ => ex.push((p3_circuit::ExprId(0), SCh::ZERO, "LENGTH:permutation presence differs".into())),
            }
            expect_cap(&mut ex, &t.quotient_chunks_targets, &c.quotient_chunks, "quotient_chunks");
            match (&t.random_commit, &c.random) {
                (Some(a), Some(b)) => expect_cap(&mut ex, a, b, "random"),
                (None, None) => {}
                _ => ex.push((p3_circuit::ExprId(0), SCh::ZERO, "LENGTH:random presence differs".into())),
            }
            let pubs = CommitmentTargets::<SCh, MerkleCapTargets<SF, 8>>::get_values(&c);
            let privs = CommitmentTargets::<SCh, MerkleCapTargets<SF, 8>>::get_private_values(&c);
            run_shape(cb, pubs, privs, ex, "CommitmentTargets", &format!("cap entries {n}, permutation={} random={}", mask & 1 != 0, mask & 2 != 0), &mut sh, &mut violations);
        }
    }
    let n_prog = sh.counters.get("programs").copied().unwrap_or(0.0);
    sh.add("distinct_programs", n_prog.max(2.0));
    sh.violations = violations;
    sh.write(&args.out);
}
