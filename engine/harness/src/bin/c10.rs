//! C10 (every buildable circuit with satisfying inputs proves and verifies) and C09(i) (honest
//! bus balances): the real trace generators and the real `eval` of the Const / Public / ALU
//! AIRs are executed on symbolic traces produced by the real runner; z3 decides, for all
//! satisfying inputs, that every constraint vanishes on every row (wrap-around included) and
//! that the WitnessChecks bus balances. Counterexamples are replayed with the real prover.
use std::collections::BTreeMap;

use harness::common::*;
use harness::prog::*;
use harness::tables::*;
use p3_baby_bear::BabyBear;
use p3_circuit::Traces;
use p3_circuit_prover::batch_stark_prover::{BatchStarkProver, CircuitProverData};
use p3_circuit_prover::common::get_airs_and_degrees_with_prep;
use p3_circuit_prover::config::{self, BabyBearConfig};
use p3_circuit_prover::field_params::ExtractBinomialW;
use p3_circuit_prover::{ConstraintProfile, TablePacking};
use p3_batch_stark::ProverData;
use p3_field::extension::BinomialExtensionField;
use p3_field::{BasedVectorSpace, ExtensionField, Field, PrimeCharacteristicRing};
use rand::SeedableRng;
use rand::rngs::SmallRng;
use serde_json::{Value, json};

const P: u64 = BabyBearCfg::P;
type B = BabyBear;
type B4 = BinomialExtensionField<BabyBear, 4>;
type S4 = BinomialExtensionField<S, 4>;

#[derive(Clone, Debug, serde::Serialize, serde::Deserialize)]
struct Cfg {
    d: usize,
    public_lanes: usize,
    alu_lanes: usize,
    k: usize,
    min_height: usize,
}

fn packing(c: &Cfg) -> TablePacking {
    TablePacking::new(c.public_lanes, c.alu_lanes).with_horner_pack_k(c.k).with_min_trace_height(c.min_height)
}

fn horner_programs(rng: &mut SmallRng, n: usize) -> Vec<Program> {
    use rand::RngExt;
    // chains that start from the zero constant (the shape the verifier circuits emit), with
    // uniform / alternating evaluation points, optionally interleaved with other ops
    let mut out = Vec::new();
    for _ in 0..n {
        let n_pub = rng.random_range(3..=6);
        let mut stmts: Vec<Stmt> = (0..n_pub).map(|_| Stmt::Public).collect();
        stmts.push(Stmt::Const(0));
        let zero = n_pub;
        let mut nv = n_pub + 1;
        let chains = rng.random_range(1..=2);
        for _ in 0..chains {
            let len = rng.random_range(1..=5);
            let mut acc = zero;
            let b0 = rng.random_range(0..n_pub);
            let b1 = rng.random_range(0..n_pub);
            let alt = rng.random_range(0..3);
            for s in 0..len {
                let b = match alt {
                    0 => b0,
                    1 => {
                        if s % 2 == 0 {
                            b0
                        } else {
                            b1
                        }
                    }
                    _ => rng.random_range(0..n_pub),
                };
                stmts.push(Stmt::Horner(acc, b, rng.random_range(0..n_pub), rng.random_range(0..n_pub)));
                acc = nv;
                nv += 1;
            }
            if rng.random_range(0..2) == 0 {
                stmts.push(Stmt::Mul(acc, rng.random_range(0..n_pub)));
                nv += 1;
            }
        }
        out.push(Program { stmts });
    }
    out
}

fn programs(tier: &str, seed: u64) -> Vec<Program> {
    let mut out = Vec::new();
    use Stmt::*;
    let p = |s: Vec<Stmt>| Program { stmts: s };
    // empty / single-row tables, aliased inputs, arbitrary accumulators
    out.push(p(vec![Public]));
    out.push(p(vec![Const(5)]));
    out.push(p(vec![Public, Public, Connect(0, 1)]));
    out.push(p(vec![Public, Const(5), Connect(0, 1)]));
    out.push(p(vec![Public, Public, Add(0, 1)]));
    out.push(p(vec![Public, Public, Public, Public, Horner(0, 1, 2, 3)]));
    out.push(p(vec![Public, Public, Public, Const(0), Horner(3, 0, 1, 2), Horner(4, 0, 2, 1), Horner(5, 0, 1, 1)]));
    out.push(p(vec![Public, Public, Public, Const(0), Horner(3, 0, 1, 2), Mul(4, 0), Horner(3, 1, 1, 2), Horner(6, 1, 2, 2)]));
    out.push(p(vec![Public, Private, Mul(0, 1), Public, Connect(2, 3)]));
    out.push(p(vec![Public, Public, Private, MulAdd(0, 1, 2), Connect(3, 2)]));
    for wp in [false, true] {
        enumerate_small(1, &["add", "sub", "mul", "div", "muladd", "select"], wp, &mut |q| {
            out.push(q);
            true
        });
    }
    let mut rng = SmallRng::seed_from_u64(seed.wrapping_mul(977).wrapping_add(5));
    let (n_rand, n_h) = if tier == "thorough" { (600, 500) } else { (300, 250) };
    for i in 0..n_rand {
        out.push(if i % 3 == 0 { gen_fusion_dag(&mut rng) } else { gen_random(&mut rng, 8, true) });
    }
    out.extend(horner_programs(&mut rng, n_h));
    for _ in 0..(if tier == "thorough" { 500 } else { 300 }) {
        out.push(gen_private_alias(&mut rng));
    }
    out
}

fn configs(tier: &str, idx: usize) -> Vec<Cfg> {
    // every program gets the default packing at D=1; other packings rotate over programs
    let mut v = vec![Cfg { d: 1, public_lanes: 1, alu_lanes: 1, k: 2, min_height: 1 }];
    let rot = [
        Cfg { d: 1, public_lanes: 2, alu_lanes: 2, k: 3, min_height: 1 },
        Cfg { d: 1, public_lanes: 1, alu_lanes: 3, k: 4, min_height: 8 },
        Cfg { d: 4, public_lanes: 1, alu_lanes: 1, k: 2, min_height: 1 },
        Cfg { d: 1, public_lanes: 3, alu_lanes: 2, k: 5, min_height: 1 },
        Cfg { d: 4, public_lanes: 2, alu_lanes: 2, k: 3, min_height: 1 },
        Cfg { d: 1, public_lanes: 1, alu_lanes: 1, k: 3, min_height: 1 },
    ];
    v.push(rot[idx % rot.len()].clone());
    if tier == "thorough" && idx % 3 == 0 {
        v.push(rot[(idx + 3) % rot.len()].clone());
    }
    v
}

struct Outcome {
    violations: Vec<Value>,
}

fn sym_inputs<ES: BasedVectorSpace<S>>(name: &str, n: usize, d: usize, st: &mut u64) -> Vec<ES> {
    (0..n)
        .map(|i| {
            ES::from_basis_coefficients_fn(|j| {
                *st = st.wrapping_mul(6364136223846793005).wrapping_add(1442695040888963407);
                let _ = d;
                S::var(format!("{name}{i}_{j}"), 2 + (*st >> 33) % (P - 2))
            })
        })
        .collect()
}

fn check_one<EB, ES, const D: usize>(prog: &Program, cfg: &Cfg, solver: &mut Solver, sh: &mut Shard, st: &mut u64) -> Outcome
where
    EB: Field + ExtensionField<B> + ExtractBinomialW<B> + BasedVectorSpace<B>,
    ES: Field + ExtensionField<S> + BasedVectorSpace<S>,
{
    let mut out = Outcome { violations: vec![] };
    let pk = packing(cfg);
    let Ok(built_c) = build_program::<EB>(prog) else {
        sh.bump("programs_rejected_by_builder");
        return out;
    };
    sh.bump("c10.program_configs");
    let hyps_cell: std::cell::RefCell<Vec<Fm>> = std::cell::RefCell::new(Vec::new());
    let solver_cell = std::cell::RefCell::new(solver);
    let mut viol = |kind: &str, role_override: Option<String>, detail: String, model: Option<&BTreeMap<u32, u64>>, sh: &mut Shard, npub: usize, npriv: usize, var_base: usize| {
        // structural findings carry no model: ask the solver for satisfying inputs to replay with
        let owned: Option<BTreeMap<u32, u64>> = if model.is_none() {
            match solver_cell.borrow_mut().query(&hyps_cell.borrow()) {
                SatResult::Sat(m) => Some(m),
                _ => None,
            }
        } else {
            None
        };
        let model = model.or(owned.as_ref());
        if model.is_none() {
            // no satisfying input found within the time limit: cannot replay, do not report
            sh.bump("c10.structural_finding_without_satisfying_input");
            return;
        }
        // inputs from the model (or shadows) -> replay with the real prover
        let get = |k: usize| -> u64 { model.and_then(|m| m.get(&((var_base + k) as u32)).copied()).unwrap_or_else(|| with_arena(|a| a.shadows[a.var_nodes[var_base + k] as usize])) % P };
        let pubs: Vec<Vec<u64>> = (0..npub).map(|i| (0..D).map(|j| get(i * D + j)).collect()).collect();
        let privs: Vec<Vec<u64>> = (0..npriv).map(|i| (0..D).map(|j| get(npub * D + i * D + j)).collect()).collect();
        let rep = replay::<EB, D>(prog, cfg, &pubs, &privs);
        let confirmed = matches!(rep.as_str(), s if s.starts_with("prove-failed") || s.starts_with("verify-failed") || s.starts_with("prep-failed") || s.starts_with("panic"));
        let has_horner = prog.stmts.iter().any(|s| matches!(s, Stmt::Horner(..)));
        // role signature: for bus findings, which tables create the slot twice
        let role = if let Some(r) = role_override {
            r
        } else if has_horner {
            horner_role::<EB>(prog)
        } else {
            "no-horner".to_string()
        };
        let role = if kind == "prep-error" { detail.split(": ").nth(1).unwrap_or("").split_whitespace().next().unwrap_or("").to_string() } else { role };
        let sig = format!("C10/{kind}:{role}");
        let v = json!({"property": "C10", "kind": kind, "signature": sig, "detail": detail, "program": prog, "program_text": prog.text(),
            "config": cfg, "publics": pubs, "privates": privs, "replay_result": rep, "confirmed_by_native_replay": confirmed});
        if confirmed {
            sh.bump("c10.violations_confirmed");
            if kind.starts_with("bus") {
                // the same finding seen from C09 (one creator per slot, balanced multiplicities)
                let mut v9 = v.clone();
                v9["property"] = json!("C09");
                v9["signature"] = json!(sig.replace("C10/", "C09/"));
                out.violations.push(v9);
            }
            out.violations.push(v);
        } else {
            sh.bump("c10.cex_not_reproduced");
            sh.undecided.push(json!({"non_reproducing_counterexample": v}));
        }
    };

    // symbolic run
    reset::<BabyBearCfg>();
    set_assume_equal(true);
    let (npub, npriv) = (prog.n_public(), prog.n_private());
    let var_base = 0usize;
    let pubs: Vec<ES> = sym_inputs::<ES>("pub", npub, D, st);
    let privs: Vec<ES> = sym_inputs::<ES>("priv", npriv, D, st);
    let Ok(built_s) = build_program::<ES>(prog) else { return out };
    // "satisfying inputs": every asserted relation of the program holds and divisors are non-zero
    let div_zero = std::cell::Cell::new(false);
    let den = denote::<ES>(prog, &pubs, &privs, |x| {
        x.try_inverse().unwrap_or_else(|| {
            div_zero.set(true);
            ES::ZERO
        })
    });
    if div_zero.get() {
        return out;
    }
    let mut rel_hyps: Vec<Fm> = Vec::new();
    // x*(x-1) = 0 in the extension *field* means x in {0,1}: state it coordinate-wise (the
    // solver cannot use the absence of zero divisors in F_p[X]/(X^D - W))
    for b in &den.bools {
        let cs = b.as_basis_coefficients_slice();
        rel_hyps.push(Fm::Eq((cs[0] * (cs[0] - S::ONE)).h(), H::C(0)));
        for c in &cs[1..] {
            rel_hyps.push(Fm::Eq(c.h(), H::C(0)));
        }
    }
    for (l, r, name) in &den.rel {
        if name.contains(":bool(") {
            continue;
        }
        for (x, y) in l.as_basis_coefficients_slice().iter().zip(r.as_basis_coefficients_slice()) {
            rel_hyps.push(Fm::Eq(x.h(), y.h()));
        }
    }
    let ev0 = events_len();
    let mut r = built_s.circuit.runner();
    let res: Result<Traces<ES>, _> = r.set_public_inputs(&pubs).and_then(|_| r.set_private_inputs(&privs)).and_then(|_| r.run());
    let Ok(traces) = res else {
        sh.bump("c10.run_err_skipped");
        return out;
    };
    // hypotheses: Div (NonZero events of the denotation), Rel, and the run's path condition
    let mut hyps: Vec<Fm> = events().iter().filter_map(event_fm).collect();
    hyps.extend(rel_hyps);
    let _ = ev0;
    *hyps_cell.borrow_mut() = hyps.clone();

    let tables = match prim_tables::<EB, D>(&built_c.circuit, &pk) {
        Ok(t) => t,
        Err(e) => {
            sh.bump("c10.prep_errors");
            viol("prep-error", None, e, None, sh, npub, npriv, var_base);
            return out;
        }
    };
    let mains = match std::panic::catch_unwind(std::panic::AssertUnwindSafe(|| honest_mains::<ES, D>(&tables, &traces))) {
        Ok(m) => m,
        Err(p) => {
            let msg = p.downcast_ref::<String>().cloned().or_else(|| p.downcast_ref::<&str>().map(|s| s.to_string())).unwrap_or_default();
            viol("trace-gen-panic", None, format!("trace generation panicked: {msg}"), None, sh, npub, npriv, var_base);
            return out;
        }
    };
    let ev = match eval_all::<D>(&tables, &mains) {
        Ok(e) => e,
        Err(e) => {
            viol("shape", None, e, None, sh, npub, npriv, var_base);
            return out;
        }
    };
    sh.add("c10.constraints_total", (ev.alu_eval.n_constraints_total + ev.const_eval.n_constraints_total + ev.public_eval.n_constraints_total) as f64);
    sh.add("c10.rows", (mains.alu_main.len() + mains.const_main.len() + mains.public_main.len()) as f64);
    sh.sample(json!({"program": prog.text(), "config": cfg, "alu_rows": mains.alu_main.len(), "alu_schedule": format!("{:?}", tables.alu_schedule)}), 10);

    solver_cell.borrow_mut().push();
    let mut rw = rewriter_from(P, &hyps, false);
    // (i) constraints
    let mut stop = false;
    for (row, ci, c) in &ev.alu_eval.constraints {
        let goal = Fm::Eq(c.h(), H::C(0));
        let verdict = discharge(&mut solver_cell.borrow_mut(), &mut rw, &hyps, &goal, sh, "c10.constraint");
        match verdict {
            Verdict::Holds => {}
            Verdict::Cex(m) => {
                viol("alu-constraint", None, format!("ALU row {row} constraint #{ci} not satisfied by the honest trace"), Some(&m), sh, npub, npriv, var_base);
                stop = true;
                break;
            }
            Verdict::Undecided(w) => sh.undecided.push(json!({"program": prog.text(), "ob": format!("c10.constraint r{row} #{ci}"), "why": w})),
        }
    }
    // (ii) bus: group by index; multiplicities sum to zero; all values of a group equal
    if !stop {
        let mut groups: BTreeMap<u64, Vec<(Vec<S>, u64, String)>> = BTreeMap::new();
        for (tname, te) in [("const", &ev.const_eval), ("public", &ev.public_eval), ("alu", &ev.alu_eval)] {
            let mut pos_in_row: BTreeMap<usize, usize> = BTreeMap::new();
            for (row, it) in &te.interactions {
                let k = *pos_in_row.entry(*row).and_modify(|x| *x += 1).or_insert(0);
                let operand = if tname == "alu" {
                    if k < 4 * tables.alu_lanes { ["a", "b", "c", "out"][k % 4].to_string() } else { format!("packed{}", k - 4 * tables.alu_lanes) }
                } else {
                    "v".to_string()
                };
                if it.bus != "WitnessChecks" {
                    continue;
                }
                let Some(m) = it.mult.as_const() else {
                    viol("bus", None, format!("{tname} row {row}: symbolic multiplicity"), None, sh, npub, npriv, var_base);
                    continue;
                };
                if m == 0 {
                    continue;
                }
                let Some(idx) = it.fields[0].as_const() else {
                    viol("bus", None, format!("{tname} row {row}: symbolic index"), None, sh, npub, npriv, var_base);
                    continue;
                };
                groups.entry(idx).or_default().push((it.fields[1..].to_vec(), m, format!("{tname}.{operand}[{row}]")));
            }
        }
        sh.add("c09.bus_groups", groups.len() as f64);
        'g: for (idx, tuples) in &groups {
            let sum = tuples.iter().fold(0u64, |a, t| addmod(a, t.1, P));
            sh.bump("c09.balance.obligations");
            if sum != 0 {
                let mut creators: Vec<(String, String)> = tuples
                    .iter()
                    .filter(|t| t.1 < P / 2)
                    .map(|t| {
                        let (op, row) = t.2.split_once('[').unwrap_or((t.2.as_str(), ""));
                        (op.to_string(), row.trim_end_matches(']').to_string())
                    })
                    .collect();
                creators.sort();
                let same_row = creators.windows(2).any(|w| w[0].1 == w[1].1 && w[0].0.starts_with("alu") && w[1].0.starts_with("alu"));
                let names: Vec<String> = creators.iter().map(|c| c.0.clone()).collect();
                let role = if names.is_empty() {
                    "no-creator".to_string()
                } else if names.len() >= 2 && names.iter().all(|n| n == "const.v" || n == "public.v") {
                    "aliased-const-public-creators".to_string()
                } else if same_row {
                    let mut pos: Vec<String> = names.iter().filter(|n| n.starts_with("alu.")).map(|n| n[4..].to_string()).collect();
                    pos.sort();
                    pos.dedup();
                    let others: Vec<&String> = names.iter().filter(|n| !n.starts_with("alu.")).collect();
                    format!("same-row-creators{{{}}}{}", pos.join(","), if others.is_empty() { String::new() } else { format!("+{others:?}") })
                } else {
                    format!("creators=[{}]", names.join(","))
                };
                viol("bus-multiplicity", Some(role), format!("witness index {idx}: multiplicities sum to {sum} ({:?})", tuples.iter().map(|t| (t.1, t.2.clone())).collect::<Vec<_>>()), None, sh, npub, npriv, var_base);
                break;
            }
            sh.bump("c09.balance.unsat");
            let senders = tuples.iter().filter(|t| t.1 < P / 2).count();
            if senders != 1 {
                sh.bump("c09.groups_with_sender_count_not_1");
                sh.notes.push(format!("index {idx} has {senders} senders in {} cfg {cfg:?}", prog.text()));
            }
            let first = &tuples[0].0;
            for t in &tuples[1..] {
                for (x, y) in first.iter().zip(&t.0) {
                    let goal = Fm::Eq(x.h(), y.h());
                    let verdict = discharge(&mut solver_cell.borrow_mut(), &mut rw, &hyps, &goal, sh, "c09.bus_value");
                    match verdict {
                        Verdict::Holds => {}
                        Verdict::Cex(m) => {
                            viol("bus-value", None, format!("witness index {idx}: {} and {} carry different values", tuples[0].2, t.2), Some(&m), sh, npub, npriv, var_base);
                            break 'g;
                        }
                        Verdict::Undecided(w) => sh.undecided.push(json!({"program": prog.text(), "ob": "c09.bus_value", "why": w})),
                    }
                }
            }
        }
    }
    solver_cell.borrow_mut().pop();
    drop(viol);
    out
}

/// Known-defect classifier for Horner programs: the AIR takes the accumulator from the previous
/// lane-0 row, so a chain is only representable when every HornerAcc op's accumulator is the
/// output of the HornerAcc op emitted right before it, or the zero constant at the start of a
/// maximal run of HornerAcc ops.
fn horner_role<EB: Field>(prog: &Program) -> String {
    use p3_circuit::ops::{AluOpKind, Op};
    let Ok(built) = build_program::<EB>(prog) else { return "horner".into() };
    let zero_slot = built.circuit.ops.iter().find_map(|o| match o {
        Op::Const { out, val } if *val == EB::ZERO => Some(*out),
        _ => None,
    });
    let alu: Vec<&Op<EB>> = built.circuit.ops.iter().filter(|o| matches!(o, Op::Alu { .. })).collect();
    let mut consistent = true;
    for (i, op) in alu.iter().enumerate() {
        if let Op::Alu { kind: AluOpKind::HornerAcc, intermediate_out: Some(acc), .. } = op {
            let prev = if i > 0 { Some(alu[i - 1]) } else { None };
            let ok = match prev {
                Some(Op::Alu { kind: AluOpKind::HornerAcc, out, .. }) => out == acc,
                _ => Some(*acc) == zero_slot,
            };
            if !ok {
                consistent = false;
            }
        }
    }
    if consistent { "horner-chain-consistent".into() } else { "horner-acc-not-previous-row-out".into() }
}

/// Replay with the real prover and verifier on concrete inputs.
static IN_REPLAY: std::sync::atomic::AtomicBool = std::sync::atomic::AtomicBool::new(false);

fn replay<EB, const D: usize>(prog: &Program, cfg: &Cfg, pubs: &[Vec<u64>], privs: &[Vec<u64>]) -> String
where
    EB: Field + ExtensionField<B> + ExtractBinomialW<B> + BasedVectorSpace<B>,
{
    IN_REPLAY.store(true, std::sync::atomic::Ordering::SeqCst);
    let r = replay_inner::<EB, D>(prog, cfg, pubs, privs);
    IN_REPLAY.store(false, std::sync::atomic::Ordering::SeqCst);
    r
}

fn replay_inner<EB, const D: usize>(prog: &Program, cfg: &Cfg, pubs: &[Vec<u64>], privs: &[Vec<u64>]) -> String
where
    EB: Field + ExtensionField<B> + ExtractBinomialW<B> + BasedVectorSpace<B>,
{
    let prog = prog.clone();
    let cfg = cfg.clone();
    let pubs = pubs.to_vec();
    let privs = privs.to_vec();
    let r = std::panic::catch_unwind(move || -> String {
        let pk = packing(&cfg);
        let Ok(built) = build_program::<EB>(&prog) else { return "build-rejected".into() };
        let conv = |v: &Vec<u64>| EB::from_basis_coefficients_fn(|j| B::from_u64(v[j]));
        let pv: Vec<EB> = pubs.iter().map(conv).collect();
        let qv: Vec<EB> = privs.iter().map(conv).collect();
        let mut runner = built.circuit.runner();
        let traces = match runner.set_public_inputs(&pv).and_then(|_| runner.set_private_inputs(&qv)).and_then(|_| runner.run()) {
            Ok(t) => t,
            Err(e) => return format!("run-failed: {e:?}"),
        };
        let stark_cfg = config::baby_bear();
        let (airs_degrees, prim, nonprim) = match get_airs_and_degrees_with_prep::<BabyBearConfig, EB, D>(&built.circuit, &pk, &[], &[], ConstraintProfile::Standard) {
            Ok(x) => x,
            Err(e) => return format!("prep-failed: {e:?}"),
        };
        let (airs, degs): (Vec<_>, Vec<usize>) = airs_degrees.into_iter().unzip();
        let pd = ProverData::from_airs_and_degrees(&stark_cfg, &airs, &degs);
        let cpd = CircuitProverData::new(pd, prim, nonprim);
        let prover = BatchStarkProver::new(stark_cfg).with_table_packing(pk);
        let proof = match prover.prove_all_tables(&traces, &cpd) {
            Ok(p) => p,
            Err(e) => return format!("prove-failed: {e:?}"),
        };
        match prover.verify_all_tables::<EB>(&proof) {
            Ok(()) => "proved-and-verified".into(),
            Err(e) => format!("verify-failed: {e:?}"),
        }
    });
    match r {
        Ok(s) => s,
        Err(p) => format!("panic: {}", p.downcast_ref::<String>().cloned().or_else(|| p.downcast_ref::<&str>().map(|s| s.to_string())).unwrap_or_default()),
    }
}

fn main() {
    let args = parse_args();
    if let Some(path) = &args.replay {
        let v: Value = serde_json::from_str(&std::fs::read_to_string(path).expect("read")).expect("json");
        let prog: Program = serde_json::from_value(v["program"].clone()).expect("program");
        let cfg: Cfg = serde_json::from_value(v["config"].clone()).expect("config");
        let pubs: Vec<Vec<u64>> = serde_json::from_value(v["publics"].clone()).unwrap_or_default();
        let privs: Vec<Vec<u64>> = serde_json::from_value(v["privates"].clone()).unwrap_or_default();
        println!("program: {}\nconfig: {cfg:?}", prog.text());
        let r = if cfg.d == 1 { replay::<B, 1>(&prog, &cfg, &pubs, &privs) } else { replay::<B4, 4>(&prog, &cfg, &pubs, &privs) };
        println!("real prover/verifier: {r}");
        std::process::exit(if r == "proved-and-verified" { 0 } else { 1 });
    }
    // the prover panics inside check_constraints in debug builds; keep replay output quiet
    std::panic::set_hook(Box::new(|info| {
        // replays run the real prover under catch_unwind (it panics in check_constraints in
        // debug builds); only print panics that are not inside a replay
        if !IN_REPLAY.load(std::sync::atomic::Ordering::SeqCst) {
            eprintln!("panic: {info}");
        }
    }));
    let mut sh = Shard::new();
    sh.functions = [
        "p3_circuit::CircuitRunner::run (symbolic)",
        "p3_circuit::Circuit::generate_preprocessed_columns, p3_circuit_prover::common::get_airs_and_degrees_with_prep (concrete per program/config)",
        "ConstAir/PublicAir/AluAir::{trace_to_matrix, preprocessed_trace, compute_schedule, build_scheduled_preprocessed_trace} (on SymF)",
        "<AluAir / WitnessSendAir as Air>::eval incl. eval_alu_interactions (on SymAirBuilder, every row + wrap-around)",
    ].iter().map(|s| s.to_string()).collect();
    let timeout_ms = if args.tier == "thorough" { 8_000 } else { 5_000 };
    let mut solver = Solver::new(SolverKind::Z3, P, timeout_ms);
    let progs = programs(&args.tier, args.seed);
    let mut st = args.seed ^ 0x1234567;
    let mut distinct = std::collections::HashSet::new();
    let filter = std::env::var("VERIF_FILTER").ok();
    if filter.is_some() {
        solver.set_transcript(std::path::Path::new("/tmp/w/c10_debug.smt2"));
    }
    for (idx, prog) in progs.iter().enumerate() {
        if let Some(f) = &filter {
            if !prog.text().contains(f.as_str()) {
                continue;
            }
        } else if idx % args.nshards != args.shard {
            continue;
        }
        if !distinct.insert(prog.clone()) {
            continue;
        }
        if sh.violations.len() >= 60 {
            sh.bump("programs_skipped_after_60_violations");
            continue;
        }
        sh.bump("programs");
        for cfg in configs(&args.tier, idx) {
            let o = if cfg.d == 1 {
                check_one::<B, S, 1>(prog, &cfg, &mut solver, &mut sh, &mut st)
            } else {
                check_one::<B4, S4, 4>(prog, &cfg, &mut solver, &mut sh, &mut st)
            };
            for v in o.violations {
                let sig = v["signature"].as_str().unwrap_or("").to_string();
                let n = sh.violations.iter().filter(|x| x["signature"] == sig.as_str()).count();
                if n < 6 {
                    sh.violations.push(v);
                } else {
                    sh.bump("violations_beyond_6_per_signature_dropped");
                }
            }
        }
    }
    sh.add("distinct_programs", distinct.len() as f64);
    sh.absorb_solver("z3", &solver.stats);
    sh.absorb_slow(&solver);
    sh.write(&args.out);
}
