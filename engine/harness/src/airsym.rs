//! E2: run a table's real `Air::eval` on symbolic rows. `F = Expr = Var = SymF`, so every
//! `assert_zero(x)` yields the constraint polynomial as an arena term and every
//! `push_interaction` yields the bus tuple and its multiplicity as terms. Preprocessed rows
//! are the real (concrete) ones, so selector products fold away and what remains are exactly
//! the constraints active on that row.
use p3_air::{AirBuilder, WindowAccess};
use p3_lookup::{Count, InteractionBuilder};
use symfield::*;

#[derive(Clone, Debug)]
pub struct Win<C: FieldCfg> {
    pub cur: Vec<SymF<C>>,
    pub next: Vec<SymF<C>>,
}
impl<C: FieldCfg> WindowAccess<SymF<C>> for Win<C> {
    fn current_slice(&self) -> &[SymF<C>] {
        &self.cur
    }
    fn next_slice(&self) -> &[SymF<C>] {
        &self.next
    }
}

#[derive(Clone, Debug)]
pub struct Interaction<C: FieldCfg> {
    pub bus: String,
    pub fields: Vec<SymF<C>>,
    pub mult: SymF<C>,
}

pub struct SymAirBuilder<C: FieldCfg> {
    pub main: Win<C>,
    pub prep: Win<C>,
    pub publics: Vec<SymF<C>>,
    pub is_first: SymF<C>,
    pub is_last: SymF<C>,
    pub is_trans: SymF<C>,
    pub constraints: Vec<SymF<C>>,
    pub interactions: Vec<Interaction<C>>,
    pub local_interactions: usize,
}

impl<C: FieldCfg> SymAirBuilder<C> {
    pub fn new(main: Win<C>, prep: Win<C>, row: usize, height: usize) -> Self {
        let b = |x: bool| if x { SymF::c(1) } else { SymF::c(0) };
        Self {
            main,
            prep,
            publics: Vec::new(),
            is_first: b(row == 0),
            is_last: b(row + 1 == height),
            is_trans: b(row + 1 != height),
            constraints: Vec::new(),
            interactions: Vec::new(),
            local_interactions: 0,
        }
    }
}

impl<C: FieldCfg> AirBuilder for SymAirBuilder<C> {
    type F = SymF<C>;
    type Expr = SymF<C>;
    type Var = SymF<C>;
    type PreprocessedWindow = Win<C>;
    type MainWindow = Win<C>;
    type PublicVar = SymF<C>;
    type PeriodicVar = SymF<C>;

    fn main(&self) -> Self::MainWindow {
        self.main.clone()
    }
    fn preprocessed(&self) -> &Self::PreprocessedWindow {
        &self.prep
    }
    fn is_first_row(&self) -> Self::Expr {
        self.is_first
    }
    fn is_last_row(&self) -> Self::Expr {
        self.is_last
    }
    fn is_transition(&self) -> Self::Expr {
        self.is_trans
    }
    fn assert_zero<I: Into<Self::Expr>>(&mut self, x: I) {
        self.constraints.push(x.into());
    }
    fn public_values(&self) -> &[Self::PublicVar] {
        &self.publics
    }
}

impl<C: FieldCfg> InteractionBuilder for SymAirBuilder<C> {
    fn push_interaction<E: Into<Self::Expr>>(
        &mut self,
        bus_name: &str,
        fields: impl IntoIterator<Item = E>,
        count: impl Into<Count<Self::Expr>>,
    ) {
        let (mult, _w) = count.into().into_parts();
        self.interactions.push(Interaction {
            bus: bus_name.to_string(),
            fields: fields.into_iter().map(Into::into).collect(),
            mult,
        });
    }
    fn push_local_interaction(&mut self, tuples: impl IntoIterator<Item = (Vec<Self::Expr>, Count<Self::Expr>)>) {
        tuples.into_iter().for_each(drop);
        self.local_interactions += 1;
    }
    fn num_global_interactions(&self) -> usize {
        self.interactions.len()
    }
    fn num_local_interactions(&self) -> usize {
        self.local_interactions
    }
}

/// All constraints and interactions of `air` over a full matrix (wrap-around row included).
pub struct TableEval<C: FieldCfg> {
    /// (row, constraint index within the row, term) for constraints that did not fold to 0
    pub constraints: Vec<(usize, usize, SymF<C>)>,
    pub n_constraints_total: usize,
    /// (row, interaction)
    pub interactions: Vec<(usize, Interaction<C>)>,
}

pub fn eval_table<C: FieldCfg, A>(air: &A, main: &[Vec<SymF<C>>], prep: &[Vec<SymF<C>>]) -> TableEval<C>
where
    A: for<'a> p3_air::Air<SymAirBuilder<C>>,
{
    let h = main.len();
    assert!(prep.is_empty() || prep.len() == h, "main/preprocessed height mismatch: {} vs {}", h, prep.len());
    let mut out = TableEval { constraints: Vec::new(), n_constraints_total: 0, interactions: Vec::new() };
    for r in 0..h {
        let nr = (r + 1) % h;
        let mw = Win { cur: main[r].clone(), next: main[nr].clone() };
        let pw = if prep.is_empty() { Win { cur: vec![], next: vec![] } } else { Win { cur: prep[r].clone(), next: prep[nr].clone() } };
        let mut b = SymAirBuilder::new(mw, pw, r, h);
        air.eval(&mut b);
        out.n_constraints_total += b.constraints.len();
        for (i, c) in b.constraints.into_iter().enumerate() {
            if c.as_const() != Some(0) {
                out.constraints.push((r, i, c));
            }
        }
        for it in b.interactions {
            out.interactions.push((r, it));
        }
    }
    out
}

pub fn matrix_rows<T: Clone + Send + Sync>(m: &p3_matrix::dense::RowMajorMatrix<T>) -> Vec<Vec<T>> {
    use p3_matrix::Matrix;
    let w = m.width();
    if w == 0 {
        return vec![Vec::new(); m.height()];
    }
    m.values.chunks(w).map(|c| c.to_vec()).collect()
}
