//! Lemma finder for large equivalence obligations (whole-verifier check lists).
//!
//! The obligations of C01/C07 are equalities between values that two different programs compute
//! with differently associated field arithmetic, nested inside hash (UF) applications. z3 cannot
//! decide them monolithically (the terms have 10^3..10^4 nodes with deep sharing). This module
//! *finds* small lemmas, and the solver *decides* each of them:
//!
//!  * every arithmetic node gets a sparse polynomial normal form over *atoms* (variables, UF
//!    outputs, inverse nodes, and previously merged nodes); nodes with equal normal forms are
//!    merged (`merges`), and merged classes become atoms for everything above them, so each
//!    lemma only spans the arithmetic between two layers of cut points;
//!  * UF applications are rebuilt over the class representatives of their arguments (congruence);
//!  * hypotheses `l == r` are oriented into substitutions of atoms (union-find style);
//!  * `lemma_script` renders one lemma as an SMT-LIB query over the *arena terms themselves*
//!    (free constants at the frontier), so that the verdict "this is an identity mod p" is z3's.
//!
//! Trusted here: the bookkeeping (union-find of atoms, congruence of UF applications, frontier
//! resolution). Not trusted: the polynomial arithmetic, which only proposes lemmas.
use std::collections::{BTreeSet, HashMap, HashSet};

use crate::arena::*;
use crate::poly::*;
use crate::rewrite::{h_add, h_mul};

pub struct Normalizer {
    pub p: u64,
    memo: HashMap<u32, Poly>,
    desc: HashMap<u32, Poly>,
    pub subst: HashMap<u32, H>,
    used: HashSet<u32>,
    classes: HashMap<u64, Vec<u32>>,
    pub rep_of: HashMap<u32, H>,
    pub opaque: HashSet<u32>,
    forced: HashSet<u32>,
    pub merges: Vec<(u32, H)>,
    merge_seen: HashSet<(u32, H)>,
    inv_operand: HashMap<u32, u32>,
    /// inverse atoms with a non-monomial (monic) operand polynomial
    inv_poly: Vec<(u32, Poly)>,
    dirty: bool,
    pub inv_splits: usize,
    pub frac_merges: usize,
    pub frac_tests: usize,
    pub t_reduce: f64,
    pub t_frac: f64,
    pub t_mul: f64,
    pub t_invpoly: f64,
    pub inv_reductions: usize,
    pub ideal: Vec<(Poly, H, H)>,
    pub forced_cuts: usize,
    pub invalidations: usize,
    pub max_terms: usize,
    pub hard_terms: usize,
    pub deadline: Option<std::time::Instant>,
}

#[derive(Debug, Clone, PartialEq, Eq)]
pub enum HypUse {
    Redundant,
    Oriented,
    Ideal,
    Dropped,
}

fn single_atom(f: &Poly) -> Option<u32> {
    if f.t.len() == 1 {
        let (m, c) = f.t.iter().next().unwrap();
        if *c == 1 && m.len() == 1 && m[0].1 == 1 {
            return Some(m[0].0);
        }
    }
    None
}

fn as_const(f: &Poly) -> Option<u64> {
    if f.t.is_empty() {
        return Some(0);
    }
    if f.t.len() == 1 {
        let (m, c) = f.t.iter().next().unwrap();
        if m.is_empty() {
            return Some(*c);
        }
    }
    None
}

fn resort(f: &Poly) -> Poly {
    let mut out = Poly::zero(f.p);
    for (m, c) in &f.t {
        let mut mm = m.clone();
        mm.sort_by(|a, b| b.0.cmp(&a.0));
        let e = out.t.entry(mm.clone()).or_insert(0);
        *e = addmod(*e, *c, f.p);
        if *e == 0 {
            out.t.remove(&mm);
        }
    }
    out
}

fn atoms_in(f: &Poly, out: &mut HashSet<u32>) {
    for m in f.t.keys() {
        for (v, _) in m {
            out.insert(*v);
        }
    }
}

impl Normalizer {
    pub fn new(p: u64) -> Self {
        Self {
            p,
            memo: HashMap::new(),
            desc: HashMap::new(),
            subst: HashMap::new(),
            used: HashSet::new(),
            classes: HashMap::new(),
            rep_of: HashMap::new(),
            opaque: HashSet::new(),
            forced: HashSet::new(),
            merges: Vec::new(),
            merge_seen: HashSet::new(),
            inv_operand: HashMap::new(),
            inv_poly: Vec::new(),
            dirty: false,
            inv_splits: 0,
            frac_merges: 0,
            frac_tests: 0,
            t_reduce: 0.0,
            t_frac: 0.0,
            t_mul: 0.0,
            t_invpoly: 0.0,
            inv_reductions: 0,
            ideal: Vec::new(),
            forced_cuts: 0,
            invalidations: 0,
            max_terms: std::env::var("VERIF_NZ_MAX").ok().and_then(|s| s.parse().ok()).unwrap_or(20000),
            hard_terms: std::env::var("VERIF_NZ_HARD").ok().and_then(|s| s.parse().ok()).unwrap_or(60000),
            deadline: None,
        }
    }

    /// Forget everything derived (normal forms, classes), keep substitutions and the opaque set.
    pub fn invalidate(&mut self) {
        self.memo.clear();
        self.desc.clear();
        self.classes.clear();
        self.rep_of.clear();
        self.used.clear();
        self.inv_poly.clear();
        self.invalidations += 1;
    }

    /// Start a new pass: nodes of merged classes (with non-trivial normal forms) become atoms.
    /// Returns the number of newly opaque representatives.
    pub fn next_pass(&mut self, min_terms: usize) -> usize {
        let mut fresh = 0;
        let merges = self.merges.clone();
        for (_, rep) in merges {
            if let H::N(r) = rep {
                let big = self.desc.get(&r).map(|f| f.t.len() >= min_terms).unwrap_or(false);
                if big && !self.opaque.contains(&r) {
                    fresh += 1;
                }
            }
        }
        if fresh == 0 {
            return 0;
        }
        for (_, rep) in self.merges.clone() {
            if let H::N(r) = rep {
                let big = self.desc.get(&r).map(|f| f.t.len() >= min_terms).unwrap_or(false);
                if big {
                    self.opaque.insert(r);
                }
            }
        }
        for r in self.forced.drain() {
            self.opaque.remove(&r);
        }
        self.forced_cuts = 0;
        for (_, rep) in self.merges.clone() {
            if let H::N(r) = rep {
                let big = self.desc.get(&r).map(|f| f.t.len() >= min_terms).unwrap_or(false);
                if big {
                    self.opaque.insert(r);
                }
            }
        }
        self.merges.clear();
        self.merge_seen.clear();
        self.inv_operand.clear();
        self.subst.clear();
        self.ideal.clear();
        self.invalidate();
        fresh
    }

    fn atom(&mut self, a: u32) -> Option<Poly> {
        if let Some(&t) = self.subst.get(&a) {
            return self.norm(t);
        }
        Some(Poly::var(self.p, a))
    }

    fn fix_monos(&self, f: Poly) -> Poly {
        // cancel a · inv(a)
        if self.inv_operand.is_empty() {
            return f;
        }
        let mut need = false;
        'o: for m in f.t.keys() {
            for (v, _) in m {
                if let Some(op) = self.inv_operand.get(v) {
                    if m.iter().any(|(w, _)| w == op) {
                        need = true;
                        break 'o;
                    }
                }
            }
        }
        if !need {
            return f;
        }
        let mut out = Poly::zero(self.p);
        for (m, c) in f.t {
            let mut exps: Vec<(u32, u32)> = m.clone();
            loop {
                let mut changed = false;
                for k in 0..exps.len() {
                    if exps[k].1 == 0 {
                        continue;
                    }
                    if let Some(op) = self.inv_operand.get(&exps[k].0) {
                        if let Some(j) = exps.iter().position(|(w, e)| w == op && *e > 0) {
                            let d = exps[k].1.min(exps[j].1);
                            exps[k].1 -= d;
                            exps[j].1 -= d;
                            changed = true;
                        }
                    }
                }
                if !changed {
                    break;
                }
            }
            exps.retain(|(_, e)| *e > 0);
            let e = out.t.entry(exps.clone()).or_insert(0);
            *e = addmod(*e, c, self.p);
            if *e == 0 {
                out.t.remove(&exps);
            }
        }
        out
    }

    fn pmul(&self, a: &Poly, b: &Poly) -> Option<Poly> {
        let r = a.mul_cap(b, self.hard_terms)?;
        Some(self.fix_monos(r))
    }

    fn mk_inv_node(&mut self, operand: H) -> u32 {
        let p = self.p;
        with_arena(|ar| {
            let s = ar.shadow(operand);
            let sh = if s == 0 { 0 } else { invmod(s, p) };
            ar.mk(Node::Inv(operand), sh)
        })
    }

    /// Class representative handle of node `i` whose descended normal form is `f`.
    fn class_of(&mut self, i: u32, f: &Poly) -> H {
        if let Some(c) = as_const(f) {
            return H::C(c);
        }
        if let Some(a) = single_atom(f) {
            return H::N(a);
        }
        let sh = with_arena(|a| a.shadows[i as usize]);
        let bucket = self.classes.entry(sh).or_default();
        for &r in bucket.iter() {
            if r == i {
                return H::N(r);
            }
            if self.desc.get(&r).map(|g| g == f).unwrap_or(false) {
                return H::N(r);
            }
        }
        // same concrete value, different normal form: compare as rational functions
        let cands: Vec<u32> = bucket.clone();
        for r in cands {
            let Some(g) = self.desc.get(&r).cloned() else { continue };
            if self.frac_equal(f, &g) == Some(true) {
                self.frac_merges += 1;
                return H::N(r);
            }
        }
        let bucket = self.classes.entry(sh).or_default();
        bucket.push(i);
        self.desc.insert(i, f.clone());
        H::N(i)
    }

    fn record_merge(&mut self, i: u32, h: H) {
        if h != H::N(i) && self.merge_seen.insert((i, h)) {
            self.merges.push((i, h));
        }
    }

    /// Class representative of an arbitrary handle (normalising it first).
    pub fn handle(&mut self, h: H) -> Option<H> {
        match h {
            H::C(_) => Some(h),
            H::N(i) => {
                let f = self.norm(h)?;
                if let Some(c) = as_const(&f) {
                    return Some(H::C(c));
                }
                if let Some(a) = single_atom(&f) {
                    return Some(H::N(a));
                }
                // a substituted atom stands for its replacement term: use that term's class
                let mut cur = i;
                let mut guard = 0;
                while let Some(&H::N(t)) = self.subst.get(&cur) {
                    cur = t;
                    guard += 1;
                    if guard > 64 {
                        break;
                    }
                }
                match self.rep_of.get(&cur) {
                    Some(&r) => Some(r),
                    None => Some(H::N(cur)),
                }
            }
        }
    }

    pub fn norm(&mut self, h: H) -> Option<Poly> {
        let p = self.p;
        let i = match h {
            H::C(v) => return Some(Poly::constant(p, v)),
            H::N(i) => i,
        };
        if let Some(f) = self.memo.get(&i) {
            return Some(f.clone());
        }
        if let Some(d) = self.deadline {
            if std::time::Instant::now() > d {
                return None;
            }
        }
        let node = with_arena(|a| a.nodes[i as usize].clone());
        let out: Poly = match node {
            Node::Var(_) => self.atom(i)?,
            Node::Uf { f, args, idx } => {
                let mut new_args = Vec::with_capacity(args.len());
                for a in args.iter() {
                    let ha = self.handle(*a)?;
                    if let Some(fa) = self.memo_or_norm(ha) {
                        let mut s = HashSet::new();
                        atoms_in(&fa, &mut s);
                        self.used.extend(s);
                    }
                    new_args.push(ha);
                }
                let j = with_arena(|ar| {
                    let sh = ar.shadows[i as usize];
                    ar.mk(Node::Uf { f, args: new_args.into_boxed_slice(), idx }, sh)
                });
                self.rep_of.insert(i, H::N(j));
                if j != i {
                    self.rep_of.insert(j, H::N(j));
                }
                self.atom(j)?
            }
            Node::Inv(a) => {
                let fa = self.norm(a)?;
                let f = if let Some(c) = as_const(&fa) {
                    Poly::constant(p, if c == 0 { 0 } else { invmod(c, p) })
                } else if fa.t.len() == 1 {
                    // monomial: c·Π a_k^e  ->  c^-1 · Π inv(a_k)^e
                    let (m, c) = fa.t.iter().next().map(|(m, c)| (m.clone(), *c)).unwrap();
                    let mut r = Poly::constant(p, invmod(c, p));
                    for (v, e) in m {
                        let iv = if let Some(op) = self.inv_operand.get(&v).copied() {
                            // inverse of an inverse atom: the operand itself
                            self.atom(op)?
                        } else {
                            let k = self.mk_inv_node(H::N(v));
                            self.inv_operand.insert(k, v);
                            self.atom(k)?
                        };
                        for _ in 0..e {
                            r = self.pmul(&r, &iv)?;
                        }
                    }
                    r
                } else {
                    let ha = self.handle(a)?;
                    let mut s = HashSet::new();
                    atoms_in(&fa, &mut s);
                    self.used.extend(s);
                    // monic operand: inv(c·q) = c^-1 · inv(q)
                    let (_, c) = fa.lead().unwrap();
                    let cinv = invmod(c, p);
                    let (hq, q) = if c == 1 {
                        (ha, fa.clone())
                    } else {
                        let node = h_mul(p, H::C(cinv), ha);
                        let q = self.norm(node)?;
                        (self.handle(node)?, q)
                    };
                    let r = self.inv_of_poly(hq, &q)?;
                    r.scale_mono(&vec![], cinv)
                };
                self.finish_arith(i, f)?
            }
            Node::Add(a, b) => {
                let (fa, fb) = (self.norm(a)?, self.norm(b)?);
                self.finish_arith(i, fa.add(&fb))?
            }
            Node::Sub(a, b) => {
                let (fa, fb) = (self.norm(a)?, self.norm(b)?);
                self.finish_arith(i, fa.sub(&fb))?
            }
            Node::Mul(a, b) => {
                let (fa, fb) = (self.norm(a)?, self.norm(b)?);
                match self.pmul(&fa, &fb) {
                    Some(f) => self.finish_arith(i, f)?,
                    None => {
                        if std::env::var("VERIF_NZ_TRACE").is_ok() { eprintln!("  [forced-mul] node {i}: {} x {} terms", fa.t.len(), fb.t.len()); }
                        // too large: cut at the operands and retry
                        let (ca, cb) = (self.force_cut(a, &fa)?, self.force_cut(b, &fb)?);
                        let f = self.pmul(&ca, &cb)?;
                        self.finish_arith(i, f)?
                    }
                }
            }
            Node::Neg(a) => {
                let fa = self.norm(a)?;
                self.finish_arith(i, fa.neg())?
            }
        };
        self.memo.insert(i, out.clone());
        Some(out)
    }

    fn exact_div(a: &Poly, b: &Poly) -> Option<Poly> {
        let (rem, cof) = reduce(a, std::slice::from_ref(b))?;
        if rem.is_zero() { cof.into_iter().next() } else { None }
    }

    /// Normal form of `inv(q)` for a monic non-monomial `q` whose class handle is `hq`.
    fn inv_of_poly(&mut self, hq: H, q: &Poly) -> Option<Poly> {
        let t0 = std::time::Instant::now();
        let r = self.inv_of_poly_inner(hq, q);
        self.t_invpoly += t0.elapsed().as_secs_f64();
        r
    }

    fn inv_of_poly_inner(&mut self, hq: H, q: &Poly) -> Option<Poly> {
        if let Some(a) = single_atom(q) {
            let k = self.mk_inv_node(H::N(a));
            self.inv_operand.insert(k, a);
            return self.atom(k);
        }
        let k = self.mk_inv_node(hq);
        if self.subst.contains_key(&k) || self.inv_poly.iter().any(|(j, _)| *j == k) {
            return self.atom(k);
        }
        // registered smaller operands dividing q: inv(q) = Π inv(P_j)^m · inv(rest)
        let mut reg = self.inv_poly.clone();
        reg.sort_by_key(|(_, f)| f.t.len());
        let mut rest = q.clone();
        let mut acc = Poly::constant(self.p, 1);
        let mut split = false;
        for (j, pj) in reg.iter() {
            while pj.t.len() > 1 && pj.t.len() <= rest.t.len() {
                match Self::exact_div(&rest, pj) {
                    Some(quo) => {
                        split = true;
                        self.inv_splits += 1;
                        let fj = self.atom(*j)?;
                        acc = self.pmul(&acc, &fj)?;
                        rest = quo;
                    }
                    None => break,
                }
            }
        }
        if split {
            if let Some(c) = as_const(&rest) {
                return Some(acc.scale_mono(&vec![], invmod(c, self.p)));
            }
            let (_, c) = rest.lead().unwrap();
            let cinv = invmod(c, self.p);
            let monic = rest.scale_mono(&vec![], cinv);
            let hm = self.poly_to_handle(&monic);
            let hm = self.handle(hm)?;
            let fr = self.inv_of_poly_inner(hm, &monic)?;
            let r = self.pmul(&acc, &fr)?;
            return Some(r.scale_mono(&vec![], cinv));
        }
        // q divides a registered larger operand: that atom splits
        for (j, pj) in reg.iter() {
            if pj.t.len() > q.t.len() && !self.subst.contains_key(j) {
                if let Some(quo) = Self::exact_div(pj, q) {
                    self.inv_splits += 1;
                    self.inv_poly.retain(|(x, _)| x != j);
                    if !self.inv_poly.iter().any(|(x, _)| *x == k) {
                        self.inv_poly.push((k, q.clone()));
                    }
                    let hquo = self.poly_to_handle(&quo);
                    let inv_quo = H::N(self.mk_inv_node(hquo));
                    let prod = h_mul(self.p, H::N(k), inv_quo);
                    self.subst.insert(*j, prod);
                    self.dirty = true;
                }
            }
        }
        if !self.inv_poly.iter().any(|(x, _)| *x == k) {
            self.inv_poly.push((k, q.clone()));
        }
        self.atom(k)
    }

    fn known_inv(&self, v: u32) -> Option<Poly> {
        if let Some(op) = self.inv_operand.get(&v) {
            return Some(Poly::var(self.p, *op));
        }
        self.inv_poly.iter().find(|(k, _)| *k == v).map(|(_, q)| q.clone())
    }

    /// Cancel inverse atoms against numerators: when some monomial carries two or more inverse
    /// factors (the trace of a batch inversion), write `f` over the common denominator, divide
    /// out every known operand polynomial that divides the numerator, and re-expand.
    fn reduce_inv(&mut self, f: Poly) -> Poly {
        let t0 = std::time::Instant::now();
        let r = self.reduce_inv_inner(f);
        self.t_reduce += t0.elapsed().as_secs_f64();
        r
    }

    fn reduce_inv_inner(&mut self, f: Poly) -> Poly {
        if (self.inv_poly.is_empty() && self.inv_operand.is_empty()) || f.t.len() < 2 || f.t.len() > 8000 {
            return f;
        }
        let mut pk: HashMap<u32, Poly> = HashMap::new();
        let mut maxe: HashMap<u32, u32> = HashMap::new();
        let mut trigger = false;
        for m in f.t.keys() {
            let mut invdeg = 0;
            for (v, e) in m {
                if !pk.contains_key(v) {
                    match self.known_inv(*v) {
                        Some(q) => {
                            pk.insert(*v, q);
                        }
                        None => continue,
                    }
                }
                invdeg += e;
                let x = maxe.entry(*v).or_insert(0);
                *x = (*x).max(*e);
            }
            if invdeg >= 2 {
                trigger = true;
            }
        }
        if !trigger || maxe.values().any(|e| *e > 4) {
            return f;
        }
        let ks: Vec<u32> = { let mut v: Vec<u32> = maxe.keys().copied().collect(); v.sort(); v };
        let mut groups: HashMap<Vec<u32>, Poly> = HashMap::new();
        for (m, c) in f.t.iter() {
            let sig: Vec<u32> = ks.iter().map(|k| m.iter().find(|(v, _)| v == k).map(|(_, e)| *e).unwrap_or(0)).collect();
            let rest: Mono = m.iter().filter(|(v, _)| !maxe.contains_key(v)).cloned().collect();
            let e = groups.entry(sig).or_insert_with(|| Poly::zero(self.p));
            e.t.insert(rest, *c);
        }
        let mut est: f64 = 0.0;
        for (sig, part) in groups.iter() {
            let mut x = part.t.len() as f64;
            for (k, e) in ks.iter().zip(sig.iter()) {
                x *= (pk[k].t.len() as f64).powi((maxe[k] - e) as i32);
            }
            est += x;
        }
        if est > 1.0e6 {
            return f;
        }
        let mut num = Poly::zero(self.p);
        for (sig, part) in groups {
            let mut acc = part;
            for (k, e) in ks.iter().zip(sig.iter()) {
                for _ in 0..(maxe[k] - e) {
                    match acc.mul(&pk[k]) {
                        Some(x) => acc = x,
                        None => return f,
                    }
                }
            }
            num = num.add(&acc);
        }
        let mut exps: Vec<u32> = ks.iter().map(|k| maxe[k]).collect();
        let mut changed = false;
        for (idx, k) in ks.iter().enumerate() {
            while exps[idx] > 0 {
                let q = match reduce_steps(&num, std::slice::from_ref(&pk[k]), 30000) {
                    Some((rem, cof)) if rem.is_zero() => cof.into_iter().next().unwrap(),
                    _ => break,
                };
                num = q;
                exps[idx] -= 1;
                changed = true;
                self.inv_reductions += 1;
            }
        }
        if !changed {
            return f;
        }
        let mut mono: Mono = ks.iter().zip(exps.iter()).filter(|(_, e)| **e > 0).map(|(k, e)| (*k, *e)).collect();
        mono.sort_by(|a, b| b.0.cmp(&a.0));
        if mono.is_empty() { num } else { num.scale_mono(&mono, 1) }
    }

    /// Equality of two normal forms as rational functions: every inverse atom `k` with a known
    /// operand polynomial `P_k` is cleared by multiplying through with `P_k^e`.
    fn frac_equal(&mut self, f: &Poly, g: &Poly) -> Option<bool> {
        let t0 = std::time::Instant::now();
        let r = self.frac_equal_inner(f, g);
        self.t_frac += t0.elapsed().as_secs_f64();
        r
    }

    fn frac_equal_inner(&mut self, f: &Poly, g: &Poly) -> Option<bool> {
        let d = f.sub(g);
        if d.is_zero() {
            return Some(true);
        }
        let mut pk: HashMap<u32, Poly> = HashMap::new();
        let mut maxe: HashMap<u32, u32> = HashMap::new();
        for m in d.t.keys() {
            for (v, e) in m {
                if !pk.contains_key(v) {
                    if let Some(op) = self.inv_operand.get(v) {
                        pk.insert(*v, Poly::var(self.p, *op));
                    } else if let Some((_, q)) = self.inv_poly.iter().find(|(k, _)| k == v) {
                        pk.insert(*v, q.clone());
                    } else {
                        continue;
                    }
                }
                let x = maxe.entry(*v).or_insert(0);
                *x = (*x).max(*e);
            }
        }
        if maxe.is_empty() {
            return Some(false);
        }
        if maxe.values().any(|e| *e > 3) {
            return None;
        }
        self.frac_tests += 1;
        let ks: Vec<u32> = { let mut v: Vec<u32> = maxe.keys().copied().collect(); v.sort(); v };
        // group terms by their inverse-exponent signature
        let mut groups: HashMap<Vec<u32>, Poly> = HashMap::new();
        for (m, c) in d.t.iter() {
            let sig: Vec<u32> = ks.iter().map(|k| m.iter().find(|(v, _)| v == k).map(|(_, e)| *e).unwrap_or(0)).collect();
            let rest: Mono = m.iter().filter(|(v, _)| !maxe.contains_key(v)).cloned().collect();
            let e = groups.entry(sig).or_insert_with(|| Poly::zero(self.p));
            let x = e.t.entry(rest.clone()).or_insert(0);
            *x = addmod(*x, *c, self.p);
            if *x == 0 {
                e.t.remove(&rest);
            }
        }
        // size estimate per group
        let mut est: f64 = 0.0;
        for (sig, part) in groups.iter() {
            let mut x = part.t.len() as f64;
            for (k, e) in ks.iter().zip(sig.iter()) {
                x *= (pk[k].t.len() as f64).powi((maxe[k] - e) as i32);
            }
            est += x;
        }
        if est > 2.0e6 {
            return None;
        }
        let mut total = Poly::zero(self.p);
        for (sig, part) in groups {
            let mut acc = part;
            for (k, e) in ks.iter().zip(sig.iter()) {
                for _ in 0..(maxe[k] - e) {
                    acc = acc.mul(&pk[k])?;
                }
            }
            total = total.add(&acc);
            if total.t.len() > 4_000_000 {
                return None;
            }
        }
        Some(total.is_zero())
    }

    pub fn dump_tree(&mut self, h: H, depth: usize, max: usize) {
        let pad = "    ".repeat(depth + 1);
        match h {
            H::C(v) => eprintln!("{pad}const {v}"),
            H::N(i) => {
                let node = with_arena(|a| a.nodes[i as usize].clone());
                let sz = self.memo.get(&i).map(|f| (f.t.len(), f.t.keys().map(|m| m.iter().map(|(_, e)| *e).sum::<u32>()).max().unwrap_or(0)));
                let (name, kids): (String, Vec<H>) = match &node {
                    Node::Var(x) => (format!("var {}", with_arena(|a| a.var_names[*x as usize].clone())), vec![]),
                    Node::Add(a, b) => ("add".into(), vec![*a, *b]),
                    Node::Sub(a, b) => ("sub".into(), vec![*a, *b]),
                    Node::Mul(a, b) => ("mul".into(), vec![*a, *b]),
                    Node::Neg(a) => ("neg".into(), vec![*a]),
                    Node::Inv(a) => ("inv".into(), vec![*a]),
                    Node::Uf { idx, .. } => (format!("uf[{idx}]"), vec![]),
                };
                eprintln!("{pad}#{i} {name} nf={sz:?} opaque={}", self.opaque.contains(&i));
                if depth < max {
                    for k in kids {
                        self.dump_tree(k, depth + 1, max);
                    }
                }
            }
        }
    }

    fn memo_or_norm(&mut self, h: H) -> Option<Poly> {
        self.norm(h)
    }

    fn force_cut(&mut self, h: H, f: &Poly) -> Option<Poly> {
        if f.t.len() <= 64 {
            return Some(f.clone());
        }
        match h {
            H::N(i) => {
                self.forced_cuts += 1;
                let r = match self.rep_of.get(&i) {
                    Some(H::N(r)) => *r,
                    _ => i,
                };
                if self.opaque.insert(r) {
                    self.forced.insert(r);
                }
                let a = self.atom(r)?;
                self.memo.insert(i, a.clone());
                Some(a)
            }
            _ => Some(f.clone()),
        }
    }

    fn finish_arith(&mut self, i: u32, f: Poly) -> Option<Poly> {
        let f = self.reduce_inv(f);
        let h = self.class_of(i, &f);
        self.rep_of.insert(i, h);
        self.record_merge(i, h);
        let mut s = HashSet::new();
        atoms_in(&f, &mut s);
        self.used.extend(s);
        match h {
            H::N(r) if self.opaque.contains(&r) => self.atom(r),
            H::N(r) if f.t.len() > self.max_terms => {
                if std::env::var("VERIF_NZ_TRACE").is_ok() {
                    let mut s = HashSet::new();
                    atoms_in(&f, &mut s);
                    let mut kinds: std::collections::BTreeMap<String, usize> = Default::default();
                    let mut maxdeg = 0;
                    for m in f.t.keys() { maxdeg = maxdeg.max(m.iter().map(|(_, e)| *e).sum::<u32>()); }
                    for a in &s { let k = with_arena(|ar| match &ar.nodes[*a as usize] { Node::Var(x) => format!("var:{}", &ar.var_names[*x as usize][..1]), Node::Uf { .. } => "uf".to_string(), Node::Inv(_) => "inv".to_string(), _ => "cut".to_string() }); *kinds.entry(k).or_insert(0) += 1; }
                    eprintln!("  [forced-size] node {i}: {} terms, {} atoms {:?}, max degree {maxdeg}", f.t.len(), s.len(), kinds);
                    if std::env::var("VERIF_NZ_TREE").is_ok() { self.dump_tree(H::N(i), 0, 5); }
                }
                // forced cut: keep going with an atom for this class
                self.forced_cuts += 1;
                if self.opaque.insert(r) {
                    self.forced.insert(r);
                }
                self.atom(r)
            }
            _ => Some(f),
        }
    }

    /// Does atom `x` occur in the term `h` (through structure and substitutions)?
    fn occurs(&self, x: u32, h: H) -> bool {
        let mut stack = vec![h];
        let mut seen = HashSet::new();
        while let Some(h) = stack.pop() {
            let H::N(i) = h else { continue };
            if i == x {
                return true;
            }
            if !seen.insert(i) {
                continue;
            }
            if seen.len() > 200_000 {
                return true;
            }
            if let Some(t) = self.subst.get(&i) {
                stack.push(*t);
                continue;
            }
            with_arena(|a| match &a.nodes[i as usize] {
                Node::Var(_) => {}
                Node::Add(p, q) | Node::Sub(p, q) | Node::Mul(p, q) => {
                    stack.push(*p);
                    stack.push(*q);
                }
                Node::Neg(p) | Node::Inv(p) => stack.push(*p),
                Node::Uf { args, .. } => stack.extend(args.iter().copied()),
            });
        }
        false
    }

    fn set_subst(&mut self, from: u32, to: H) {
        self.subst.insert(from, to);
        if self.used.contains(&from) {
            self.invalidate();
        } else {
            self.memo.remove(&from);
        }
    }

    /// Build an arena term for a polynomial over atoms.
    pub fn poly_to_handle(&self, f: &Poly) -> H {
        let p = self.p;
        let mut acc = H::C(0);
        for (m, c) in &f.t {
            let mut t = H::C(*c);
            for (v, e) in m {
                for _ in 0..*e {
                    t = h_mul(p, t, H::N(*v));
                }
            }
            acc = h_add(p, acc, t);
        }
        acc
    }

    /// Use the hypothesis `l == r`.
    pub fn add_hyp(&mut self, l: H, r: H) -> HypUse {
        let (Some(nl), Some(nr)) = self.norm_pair(l, r) else { return HypUse::Dropped };
        let d = nl.sub(&nr);
        if d.is_zero() {
            return HypUse::Redundant;
        }
        let (al, ar) = (single_atom(&nl), single_atom(&nr));
        let hl = self.handle(l).unwrap_or(l);
        let hr = self.handle(r).unwrap_or(r);
        // atom = atom / atom = constant / atom = term
        let mut cands: Vec<(u32, H)> = Vec::new();
        match (al, ar) {
            (Some(a), Some(b)) => {
                if a > b {
                    cands.push((a, H::N(b)));
                    cands.push((b, H::N(a)));
                } else {
                    cands.push((b, H::N(a)));
                    cands.push((a, H::N(b)));
                }
            }
            (Some(a), None) => cands.push((a, hr)),
            (None, Some(b)) => cands.push((b, hl)),
            _ => {}
        }
        for (from, to) in cands {
            if !self.occurs(from, to) {
                self.set_subst(from, to);
                return HypUse::Oriented;
            }
        }
        // linear in some atom with a constant coefficient and no other occurrence
        let mut counts: HashMap<u32, usize> = HashMap::new();
        for m in d.t.keys() {
            for (v, _) in m {
                *counts.entry(*v).or_insert(0) += 1;
            }
        }
        let mut lin: Vec<(u32, u64)> = d
            .t
            .iter()
            .filter(|(m, _)| m.len() == 1 && m[0].1 == 1 && counts[&m[0].0] == 1)
            .map(|(m, c)| (m[0].0, *c))
            .collect();
        lin.sort_by(|a, b| b.0.cmp(&a.0));
        for (v, c) in lin {
            if d.t.len() > 16 {
                break;
            }
            // v = -(d - c·v)/c
            let mut rest = d.clone();
            rest.t.remove(&vec![(v, 1)]);
            let k = mulmod(submod(0, 1, self.p), invmod(c, self.p), self.p);
            let rhs = rest.scale_mono(&vec![], k);
            let to = self.poly_to_handle(&rhs);
            if !self.occurs(v, to) {
                self.set_subst(v, to);
                return HypUse::Oriented;
            }
        }
        self.ideal.push((d, l, r));
        HypUse::Ideal
    }

    /// `Some(true)`: the normal forms coincide (lemma to be validated by the solver).
    fn norm_pair(&mut self, l: H, r: H) -> (Option<Poly>, Option<Poly>) {
        for _ in 0..8 {
            let a = self.norm(l);
            let b = self.norm(r);
            if !self.dirty {
                return (a, b);
            }
            self.dirty = false;
            self.invalidate();
        }
        (self.norm(l), self.norm(r))
    }

    pub fn equal(&mut self, l: H, r: H) -> Option<bool> {
        let (nl, nr) = self.norm_pair(l, r);
        let (nl, nr) = (nl?, nr?);
        Some(nl.sub(&nr).is_zero())
    }

    /// Remainder of `l - r` modulo the unoriented hypotheses (ideal reduction).
    pub fn reduce_goal(&mut self, l: H, r: H) -> Option<(Poly, Vec<Poly>)> {
        let (nl, nr) = (self.norm(l)?, self.norm(r)?);
        let d = nl.sub(&nr);
        let hs: Vec<Poly> = self.ideal.iter().map(|x| x.0.clone()).collect();
        reduce(&d, &hs)
    }

    // ------------------------------------------------------------------ SMT rendering

    /// Frontier name of a handle: follows canonical UF nodes, class representatives and
    /// substitutions. Returns `None` when the node has to be expanded structurally.
    fn resolve(&self, h: H) -> H {
        let mut cur = h;
        for _ in 0..64 {
            let H::N(i) = cur else { return cur };
            if let Some(&t) = self.subst.get(&i) {
                cur = t;
                continue;
            }
            match self.rep_of.get(&i) {
                Some(&r) if r != cur => {
                    cur = r;
                }
                _ => return cur,
            }
        }
        cur
    }

    fn is_frontier(&self, i: u32) -> bool {
        if self.opaque.contains(&i) {
            return true;
        }
        with_arena(|a| matches!(a.nodes[i as usize], Node::Var(_) | Node::Uf { .. }))
    }

    /// SMT-LIB script (declarations + one assertion of the negated identity) for the lemma
    /// `a == b`: both terms are expanded structurally down to the frontier; frontier nodes are
    /// free integer constants. `free_inv`: inverse nodes whose operand is not a monomial are
    /// free constants as well (sufficient unless a cancellation `x·inv(x)` is needed, in which
    /// case the caller retries with `free_inv = false`, where inverses become fractions).
    pub fn lemma_script(&self, a: H, b: H, free_inv: bool) -> Option<String> {
        let mut enc = Enc { n: self, lines: Vec::new(), done: HashMap::new(), consts: BTreeSet::new(), free_inv, budget: 200_000 };
        let (na, da) = enc.term(a, true)?;
        let (nb, db) = enc.term(b, true)?;
        let p = self.p;
        let diff = match (da, db) {
            (None, None) => format!("(- {na} {nb})"),
            (da, db) => {
                let da = da.unwrap_or("1".into());
                let db = db.unwrap_or("1".into());
                format!("(- (* {na} {db}) (* {nb} {da}))")
            }
        };
        let mut s = String::new();
        for c in &enc.consts {
            s.push_str(&format!("(declare-const {c} Int)\n"));
        }
        for l in &enc.lines {
            s.push_str(l);
            s.push('\n');
        }
        s.push_str(&format!("(assert (not (= (mod {diff} {p}) 0)))\n"));
        Some(s)
    }
}

struct Enc<'a> {
    n: &'a Normalizer,
    lines: Vec<String>,
    done: HashMap<u32, (String, Option<String>)>,
    consts: BTreeSet<String>,
    free_inv: bool,
    budget: usize,
}

impl Enc<'_> {
    fn term(&mut self, h: H, top: bool) -> Option<(String, Option<String>)> {
        let h = if top { h } else { self.n.resolve(h) };
        let i = match h {
            H::C(v) => return Some((format!("{v}"), None)),
            H::N(i) => i,
        };
        if !top {
            if let Some(r) = self.done.get(&i) {
                return Some(r.clone());
            }
            if self.n.is_frontier(i) {
                let name = format!("n{i}");
                self.consts.insert(name.clone());
                let r = (name, None);
                self.done.insert(i, r.clone());
                return Some(r);
            }
        }
        if self.budget == 0 {
            return None;
        }
        self.budget -= 1;
        let node = with_arena(|a| a.nodes[i as usize].clone());
        let r: (String, Option<String>) = match node {
            Node::Var(_) | Node::Uf { .. } => {
                let name = format!("n{i}");
                self.consts.insert(name.clone());
                (name, None)
            }
            Node::Add(x, y) | Node::Sub(x, y) => {
                let op = if matches!(node, Node::Add(..)) { "+" } else { "-" };
                let (nx, dx) = self.term(x, false)?;
                let (ny, dy) = self.term(y, false)?;
                match (dx, dy) {
                    (None, None) => (self.def(i, "e", format!("({op} {nx} {ny})")), None),
                    (dx, dy) => {
                        let same = dx.is_some() && dx == dy;
                        if same {
                            (self.def(i, "e", format!("({op} {nx} {ny})")), dx)
                        } else {
                            let dxs = dx.unwrap_or("1".into());
                            let dys = dy.unwrap_or("1".into());
                            let n = self.def(i, "e", format!("({op} (* {nx} {dys}) (* {ny} {dxs}))"));
                            let d = self.def(i, "d", format!("(* {dxs} {dys})"));
                            (n, Some(d))
                        }
                    }
                }
            }
            Node::Mul(x, y) => {
                let (nx, dx) = self.term(x, false)?;
                let (ny, dy) = self.term(y, false)?;
                let n = self.def(i, "e", format!("(* {nx} {ny})"));
                match (dx, dy) {
                    (None, None) => (n, None),
                    (dx, dy) => {
                        let dxs = dx.unwrap_or("1".into());
                        let dys = dy.unwrap_or("1".into());
                        let d = self.def(i, "d", format!("(* {dxs} {dys})"));
                        (n, Some(d))
                    }
                }
            }
            Node::Neg(x) => {
                let (nx, dx) = self.term(x, false)?;
                (self.def(i, "e", format!("(- {nx})")), dx)
            }
            Node::Inv(x) => {
                if self.free_inv {
                    // canonical inverse node over the resolved operand
                    let rx = self.n.resolve(x);
                    let k = with_arena(|ar| ar.intern.get(&Node::Inv(rx)).copied()).unwrap_or(i);
                    let name = format!("n{k}");
                    self.consts.insert(name.clone());
                    (name, None)
                } else {
                    let (nx, dx) = self.term(x, false)?;
                    (dx.unwrap_or("1".into()), Some(nx))
                }
            }
        };
        if !top {
            self.done.insert(i, r.clone());
        }
        Some(r)
    }

    fn def(&mut self, i: u32, pre: &str, body: String) -> String {
        let name = format!("{pre}{i}");
        self.lines.push(format!("(define-fun {name} () Int {body})"));
        name
    }
}
