//! `SymF<C>`: a `Copy` symbolic prime-field element implementing the p3 `Field` tower.
//!
//! Constants fold eagerly (exact mod-P arithmetic). Anything touching a variable builds a
//! hash-consed term in the global arena. Every value carries a concrete *shadow* so that
//! the real code's control flow (`==`, `try_inverse`, integer conversions) can be followed
//! concolically; every such use is logged as an `Event` (decision / assumption / pin).
use core::fmt;
use core::hash::{Hash, Hasher};
use core::iter::{Product, Sum};
use core::marker::PhantomData;
use core::ops::*;

use num_bigint::BigUint;
use p3_field::extension::{
    Binomial, BinomiallyExtendable, ExtensionAlgebra, HasTwoAdicBinomialExtension, binomial_mul,
};
use p3_field::integers::QuotientMap;
use p3_field::{
    Field, Packable, PrimeCharacteristicRing, PrimeField, PrimeField32, PrimeField64,
    RawDataSerializable, TwoAdicField,
};
use serde::{Deserialize, Deserializer, Serialize, Serializer};

use crate::arena::*;

pub trait FieldCfg:
    'static + Copy + Clone + fmt::Debug + Default + Send + Sync + Eq + Hash + Ord
{
    type Real: PrimeField64 + TwoAdicField;
    const P: u64;
    const GEN: u64;
    const TWO_ADICITY: usize;
    const NAME: &'static str;
}

#[derive(Clone, Copy, Debug, Default, PartialEq, Eq, Hash, PartialOrd, Ord)]
pub struct BabyBearCfg;
impl FieldCfg for BabyBearCfg {
    type Real = p3_baby_bear::BabyBear;
    const P: u64 = 2013265921;
    const GEN: u64 = 31;
    const TWO_ADICITY: usize = 27;
    const NAME: &'static str = "BabyBear";
}
#[derive(Clone, Copy, Debug, Default, PartialEq, Eq, Hash, PartialOrd, Ord)]
pub struct KoalaBearCfg;
impl FieldCfg for KoalaBearCfg {
    type Real = p3_koala_bear::KoalaBear;
    const P: u64 = 2130706433;
    const GEN: u64 = 3;
    const TWO_ADICITY: usize = 24;
    const NAME: &'static str = "KoalaBear";
}
#[derive(Clone, Copy, Debug, Default, PartialEq, Eq, Hash, PartialOrd, Ord)]
pub struct GoldilocksCfg;
impl FieldCfg for GoldilocksCfg {
    type Real = p3_goldilocks::Goldilocks;
    const P: u64 = 0xFFFF_FFFF_0000_0001;
    const GEN: u64 = 7;
    const TWO_ADICITY: usize = 32;
    const NAME: &'static str = "Goldilocks";
}

#[derive(Clone, Copy)]
pub struct SymF<C: FieldCfg> {
    /// 0 = constant (value in `sh`), 1 = arena node `id`.
    k: u32,
    id: u32,
    /// shadow (concrete value followed by control flow); equals the value for constants.
    sh: u64,
    _c: PhantomData<C>,
}

pub type SymBB = SymF<BabyBearCfg>;
pub type SymKB = SymF<KoalaBearCfg>;
pub type SymGL = SymF<GoldilocksCfg>;

pub fn reset<C: FieldCfg>() {
    reset_with_modulus(C::P);
}

impl<C: FieldCfg> SymF<C> {
    pub const fn c(v: u64) -> Self {
        Self { k: 0, id: 0, sh: v % C::P, _c: PhantomData }
    }
    pub fn from_h(h: H) -> Self {
        match h {
            H::C(v) => Self::c(v),
            H::N(i) => {
                let sh = with_arena(|a| a.shadows[i as usize]);
                Self { k: 1, id: i, sh, _c: PhantomData }
            }
        }
    }
    pub const fn h(&self) -> H {
        if self.k == 0 { H::C(self.sh) } else { H::N(self.id) }
    }
    /// Fresh symbolic variable with the given shadow value.
    pub fn var(name: impl Into<String>, shadow: u64) -> Self {
        let sh = shadow % C::P;
        let (id, sh) = with_arena(|a| {
            debug_assert_eq!(a.p, C::P, "arena modulus mismatch");
            let id = a.new_var(name.into(), sh);
            (id, a.shadows[id as usize])
        });
        Self { k: 1, id, sh, _c: PhantomData }
    }
    pub const fn shadow(&self) -> u64 {
        self.sh
    }
    pub const fn is_const(&self) -> bool {
        self.k == 0
    }
    pub const fn as_const(&self) -> Option<u64> {
        if self.k == 0 { Some(self.sh) } else { None }
    }
    fn node(n: Node, sh: u64) -> Self {
        let id = with_arena(|a| a.mk(n, sh));
        Self { k: 1, id, sh, _c: PhantomData }
    }
    /// Uninterpreted function output `idx` of `fname(args)`, with shadow computed by caller.
    pub fn uf(fname: &str, args: &[Self], idx: u32, shadow: u64) -> Self {
        let hs: Vec<H> = args.iter().map(|a| a.h()).collect();
        let id = with_arena(|a| {
            let f = a.uf_id(fname);
            a.mk(Node::Uf { f, args: hs.into_boxed_slice(), idx }, shadow % C::P)
        });
        Self { k: 1, id, sh: shadow % C::P, _c: PhantomData }
    }
    /// Pin this value to its shadow (logged) and return the shadow.
    pub fn pin(&self) -> u64 {
        if self.k == 1 {
            let h = self.h();
            let sh = self.sh;
            with_arena(|a| {
                let ev = Event::Pin(h, sh);
                if !a.events.contains(&ev) {
                    a.events.push(ev);
                }
            });
        }
        self.sh
    }
    pub fn to_real(&self) -> C::Real {
        <C::Real as QuotientMap<u64>>::from_int(self.sh)
    }
    pub fn smt_name(&self) -> String {
        match self.h() {
            H::C(v) => format!("{v}"),
            H::N(i) => format!("n{i}"),
        }
    }
}

impl<C: FieldCfg> Default for SymF<C> {
    fn default() -> Self {
        Self::c(0)
    }
}

impl<C: FieldCfg> PartialEq for SymF<C> {
    fn eq(&self, o: &Self) -> bool {
        if self.k == 0 && o.k == 0 {
            return self.sh == o.sh;
        }
        if self.k == o.k && self.id == o.id {
            return true;
        }
        let (l, r) = (self.h(), o.h());
        let shadow_eq = self.sh == o.sh;
        with_arena(|a| {
            let idx = a.n_decisions;
            a.n_decisions += 1;
            let d = if let Some(&f) = a.forced.get(&idx) {
                f
            } else if a.assume_equal {
                true
            } else {
                shadow_eq
            };
            a.events.push(Event::Decide { l, r, eq: d });
            d
        })
    }
}
impl<C: FieldCfg> Eq for SymF<C> {}
impl<C: FieldCfg> Hash for SymF<C> {
    fn hash<HH: Hasher>(&self, h: &mut HH) {
        assert!(self.k == 0, "symbolic value hashed (outside the encodable fragment)");
        self.sh.hash(h)
    }
}
impl<C: FieldCfg> PartialOrd for SymF<C> {
    fn partial_cmp(&self, o: &Self) -> Option<core::cmp::Ordering> {
        Some(self.cmp(o))
    }
}
impl<C: FieldCfg> Ord for SymF<C> {
    fn cmp(&self, o: &Self) -> core::cmp::Ordering {
        self.pin().cmp(&o.pin())
    }
}
impl<C: FieldCfg> fmt::Display for SymF<C> {
    fn fmt(&self, f: &mut fmt::Formatter<'_>) -> fmt::Result {
        match self.h() {
            H::C(v) => write!(f, "{v}"),
            H::N(i) => write!(f, "n{i}~{}", self.sh),
        }
    }
}
impl<C: FieldCfg> fmt::Debug for SymF<C> {
    fn fmt(&self, f: &mut fmt::Formatter<'_>) -> fmt::Result {
        fmt::Display::fmt(self, f)
    }
}

impl<C: FieldCfg> Add for SymF<C> {
    type Output = Self;
    fn add(self, o: Self) -> Self {
        let sh = addmod(self.sh, o.sh, C::P);
        if self.k == 0 && o.k == 0 {
            return Self::c(sh);
        }
        if self.k == 0 && self.sh == 0 {
            return o;
        }
        if o.k == 0 && o.sh == 0 {
            return self;
        }
        let (a, b) = if self.h() <= o.h() { (self.h(), o.h()) } else { (o.h(), self.h()) };
        Self::node(Node::Add(a, b), sh)
    }
}
impl<C: FieldCfg> Sub for SymF<C> {
    type Output = Self;
    fn sub(self, o: Self) -> Self {
        let sh = submod(self.sh, o.sh, C::P);
        if self.k == 0 && o.k == 0 {
            return Self::c(sh);
        }
        if o.k == 0 && o.sh == 0 {
            return self;
        }
        if self.k == 1 && o.k == 1 && self.id == o.id {
            return Self::c(0);
        }
        Self::node(Node::Sub(self.h(), o.h()), sh)
    }
}
impl<C: FieldCfg> Mul for SymF<C> {
    type Output = Self;
    fn mul(self, o: Self) -> Self {
        let sh = mulmod(self.sh, o.sh, C::P);
        if self.k == 0 && o.k == 0 {
            return Self::c(sh);
        }
        if (self.k == 0 && self.sh == 0) || (o.k == 0 && o.sh == 0) {
            return Self::c(0);
        }
        if self.k == 0 && self.sh == 1 {
            return o;
        }
        if o.k == 0 && o.sh == 1 {
            return self;
        }
        // x * inv(x) = 1 (inv(x) only exists on paths where x != 0 was recorded)
        if self.k == 1 && o.k == 1 {
            let (a, b) = (self.h(), o.h());
            let is_inv_pair = with_arena(|ar| {
                matches!(&ar.nodes[o.id as usize], Node::Inv(x) if *x == a)
                    || matches!(&ar.nodes[self.id as usize], Node::Inv(x) if *x == b)
            });
            if is_inv_pair {
                return Self::c(1);
            }
        }
        let (a, b) = if self.h() <= o.h() { (self.h(), o.h()) } else { (o.h(), self.h()) };
        Self::node(Node::Mul(a, b), sh)
    }
}
impl<C: FieldCfg> Neg for SymF<C> {
    type Output = Self;
    fn neg(self) -> Self {
        let sh = submod(0, self.sh, C::P);
        if self.k == 0 {
            return Self::c(sh);
        }
        Self::node(Node::Neg(self.h()), sh)
    }
}
impl<C: FieldCfg> Div for SymF<C> {
    type Output = Self;
    #[allow(clippy::suspicious_arithmetic_impl)]
    fn div(self, o: Self) -> Self {
        self * o.inverse()
    }
}
impl<C: FieldCfg> AddAssign for SymF<C> {
    fn add_assign(&mut self, o: Self) {
        *self = *self + o;
    }
}
impl<C: FieldCfg> SubAssign for SymF<C> {
    fn sub_assign(&mut self, o: Self) {
        *self = *self - o;
    }
}
impl<C: FieldCfg> MulAssign for SymF<C> {
    fn mul_assign(&mut self, o: Self) {
        *self = *self * o;
    }
}
impl<C: FieldCfg> DivAssign for SymF<C> {
    fn div_assign(&mut self, o: Self) {
        *self = *self / o;
    }
}
impl<C: FieldCfg> Sum for SymF<C> {
    fn sum<I: Iterator<Item = Self>>(i: I) -> Self {
        i.fold(Self::c(0), |a, b| a + b)
    }
}
impl<C: FieldCfg> Product for SymF<C> {
    fn product<I: Iterator<Item = Self>>(i: I) -> Self {
        i.fold(Self::c(1), |a, b| a * b)
    }
}

impl<C: FieldCfg> PrimeCharacteristicRing for SymF<C> {
    type PrimeSubfield = C::Real;
    const ZERO: Self = Self::c(0);
    const ONE: Self = Self::c(1);
    const TWO: Self = Self::c(2);
    const NEG_ONE: Self = Self::c(C::P - 1);
    fn from_prime_subfield(f: C::Real) -> Self {
        Self::c(f.as_canonical_u64())
    }
}
impl<C: FieldCfg> Packable for SymF<C> {}
impl<C: FieldCfg> RawDataSerializable for SymF<C> {
    const NUM_BYTES: usize = 8;
    fn into_bytes(self) -> impl IntoIterator<Item = u8> {
        self.pin().to_le_bytes()
    }
}

impl<C: FieldCfg> Field for SymF<C> {
    type Packing = Self;
    const GENERATOR: Self = Self::c(C::GEN);
    fn try_inverse(&self) -> Option<Self> {
        if self.k == 0 {
            if self.sh == 0 {
                return None;
            }
            return Some(Self::c(invmod(self.sh, C::P)));
        }
        let h = self.h();
        if self.sh == 0 {
            with_arena(|a| a.events.push(Event::IsZero(h)));
            return None;
        }
        with_arena(|a| {
            let ev = Event::NonZero(h);
            if !a.events.contains(&ev) {
                a.events.push(ev);
            }
        });
        Some(Self::node(Node::Inv(h), invmod(self.sh, C::P)))
    }
    fn order() -> BigUint {
        BigUint::from(C::P)
    }
}

macro_rules! qm {
    ($($t:ty),*) => { $(
        impl<C: FieldCfg> QuotientMap<$t> for SymF<C> {
            fn from_int(i: $t) -> Self {
                let m = (i as i128).rem_euclid(C::P as i128);
                Self::c(m as u64)
            }
            fn from_canonical_checked(i: $t) -> Option<Self> {
                let v = i as i128;
                if v >= 0 && v < C::P as i128 { Some(Self::c(v as u64)) } else { None }
            }
            unsafe fn from_canonical_unchecked(i: $t) -> Self {
                Self::from_int(i)
            }
        }
    )* };
}
qm!(u8, u16, u32, u64, i8, i16, i32, i64, i128);
impl<C: FieldCfg> QuotientMap<u128> for SymF<C> {
    fn from_int(i: u128) -> Self {
        Self::c((i % C::P as u128) as u64)
    }
    fn from_canonical_checked(i: u128) -> Option<Self> {
        if i < C::P as u128 { Some(Self::c(i as u64)) } else { None }
    }
    unsafe fn from_canonical_unchecked(i: u128) -> Self {
        Self::from_int(i)
    }
}

impl<C: FieldCfg> PrimeField for SymF<C> {
    fn as_canonical_biguint(&self) -> BigUint {
        BigUint::from(self.pin())
    }
}
impl<C: FieldCfg> PrimeField64 for SymF<C> {
    const ORDER_U64: u64 = C::P;
    fn as_canonical_u64(&self) -> u64 {
        self.pin()
    }
}
impl<C: FieldCfg> PrimeField32 for SymF<C> {
    const ORDER_U32: u32 = C::P as u32;
    fn as_canonical_u32(&self) -> u32 {
        assert!(C::P < (1 << 32));
        self.pin() as u32
    }
}
impl<C: FieldCfg> TwoAdicField for SymF<C> {
    const TWO_ADICITY: usize = C::TWO_ADICITY;
    fn two_adic_generator(bits: usize) -> Self {
        Self::c(C::Real::two_adic_generator(bits).as_canonical_u64())
    }
}

impl<C: FieldCfg> Serialize for SymF<C> {
    fn serialize<S: Serializer>(&self, s: S) -> Result<S::Ok, S::Error> {
        s.serialize_u64(self.pin())
    }
}
impl<'de, C: FieldCfg> Deserialize<'de> for SymF<C> {
    fn deserialize<D: Deserializer<'de>>(d: D) -> Result<Self, D::Error> {
        let mut v = u64::deserialize(d)?;
        let (fresh, monty) = with_arena(|a| (a.deser_fresh, a.deser_monty31));
        if monty {
            // canonical = v * (2^32)^-1 mod p
            v = mulmod(v % C::P, invmod((1u64 << 32) % C::P, C::P), C::P);
        }
        if fresh {
            let n = with_arena(|a| a.var_names.len());
            Ok(Self::var(format!("d{n}"), v))
        } else {
            Ok(Self::c(v))
        }
    }
}

// ---- binomial extensions (arithmetic delegated to p3's generic kernels) ----
macro_rules! binom_ext {
    ($cfg:ty, $d:literal, $w:expr, $dth:expr, $gen:expr, $ext2adic:expr) => {
        impl ExtensionAlgebra<Self, $d, Binomial<Self>> for SymF<$cfg> {
            fn ext_mul(a: &[Self; $d], b: &[Self; $d], res: &mut [Self; $d]) {
                binomial_mul::<Self, Self, Self, $d>(a, b, res, Self::c($w));
            }
        }
        impl BinomiallyExtendable<$d> for SymF<$cfg> {
            const W: Self = Self::c($w);
            const DTH_ROOT: Self = Self::c($dth);
            const EXT_GENERATOR: [Self; $d] = {
                let g: [u64; $d] = $gen;
                let mut out = [Self::c(0); $d];
                let mut i = 0;
                while i < $d {
                    out[i] = Self::c(g[i]);
                    i += 1;
                }
                out
            };
        }
        impl HasTwoAdicBinomialExtension<$d> for SymF<$cfg> {
            const EXT_TWO_ADICITY: usize = $ext2adic;
            fn ext_two_adic_generator(bits: usize) -> [Self; $d] {
                let r = <<$cfg as FieldCfg>::Real as HasTwoAdicBinomialExtension<$d>>::ext_two_adic_generator(bits);
                r.map(|x| Self::c(x.as_canonical_u64()))
            }
        }
    };
}
binom_ext!(BabyBearCfg, 4, 11, 1728404513, [8, 1, 0, 0], 29);
binom_ext!(BabyBearCfg, 5, 2, 815036133, [8, 1, 0, 0, 0], 27);
binom_ext!(BabyBearCfg, 8, 11, 420899707, [5, 1, 0, 0, 0, 0, 0, 0], 30);
binom_ext!(KoalaBearCfg, 4, 3, 2113994754, [2, 1, 0, 0], 26);
binom_ext!(KoalaBearCfg, 8, 3, 1748172362, [10, 1, 0, 0, 0, 0, 0, 0], 27);
binom_ext!(GoldilocksCfg, 2, 7, 18446744069414584320, [18081566051660590251, 16121475356294670766], 33);
