//! Symbolic permutation: outputs are uninterpreted-function applications of the inputs,
//! shadows are computed by a real permutation supplied by the harness.
use std::sync::Arc;

use p3_symmetric::{CryptographicPermutation, Permutation};

use crate::symf::{FieldCfg, SymF};

/// Shadow oracle: maps concrete canonical inputs to concrete canonical outputs.
pub type ShadowFn = Arc<dyn Fn(&[u64]) -> Vec<u64> + Send + Sync>;

#[derive(Clone)]
pub struct SymPerm<const W: usize> {
    pub name: &'static str,
    pub shadow: ShadowFn,
}

impl<const W: usize> core::fmt::Debug for SymPerm<W> {
    fn fmt(&self, f: &mut core::fmt::Formatter<'_>) -> core::fmt::Result {
        write!(f, "SymPerm<{W}>({})", self.name)
    }
}

impl<const W: usize> SymPerm<W> {
    pub fn new(name: &'static str, shadow: ShadowFn) -> Self {
        Self { name, shadow }
    }
    pub fn apply<C: FieldCfg>(&self, s: &[SymF<C>; W]) -> [SymF<C>; W] {
        let ins: Vec<u64> = s.iter().map(|x| x.shadow()).collect();
        let outs = (self.shadow)(&ins);
        assert_eq!(outs.len(), W);
        if s.iter().all(|x| x.is_const()) {
            return core::array::from_fn(|i| SymF::c(outs[i]));
        }
        core::array::from_fn(|i| SymF::uf(self.name, s, i as u32, outs[i]))
    }
}

impl<C: FieldCfg, const W: usize> Permutation<[SymF<C>; W]> for SymPerm<W> {
    fn permute_mut(&self, s: &mut [SymF<C>; W]) {
        *s = self.apply(s);
    }
}
impl<C: FieldCfg, const W: usize> CryptographicPermutation<[SymF<C>; W]> for SymPerm<W> {}
