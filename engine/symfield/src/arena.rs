//! Global hash-consed term arena, path condition and event log for `SymF`.
use std::collections::HashMap;
use std::sync::Mutex;

/// Handle to a term: constant value or arena node id.
#[derive(Clone, Copy, Debug, PartialEq, Eq, Hash, PartialOrd, Ord)]
pub enum H {
    C(u64),
    N(u32),
}

#[derive(Clone, Debug, PartialEq, Eq, Hash)]
pub enum Node {
    Var(u32),
    Add(H, H),
    Sub(H, H),
    Mul(H, H),
    Neg(H),
    Inv(H),
    /// Uninterpreted function application: output `idx` of function `f` on `args`.
    Uf { f: u32, args: Box<[H]>, idx: u32 },
}

/// One entry of the execution log (path condition, assumptions, pins).
#[derive(Clone, Debug, PartialEq, Eq)]
pub enum Event {
    /// `==` evaluated on a symbolic operand; `eq` is the decision taken.
    Decide { l: H, r: H, eq: bool },
    /// `try_inverse` returned `Some`: the operand is assumed non-zero on this path.
    NonZero(H),
    /// `try_inverse` returned `None` (shadow was zero): operand is zero on this path.
    IsZero(H),
    /// A symbolic value was converted to an integer: path pinned to `term == val`.
    Pin(H, u64),
    /// Free-form marker inserted by harnesses.
    Mark(String),
}

pub struct Arena {
    pub p: u64,
    pub nodes: Vec<Node>,
    pub shadows: Vec<u64>,
    pub intern: HashMap<Node, u32>,
    pub events: Vec<Event>,
    pub var_names: Vec<String>,
    pub var_nodes: Vec<u32>,
    pub uf_names: Vec<String>,
    /// When set, `Deserialize` for `SymF` allocates a fresh variable per element.
    pub deser_fresh: bool,
    /// Incoming integers are 31-bit Montgomery representatives (p3 MontyField31 serde format).
    pub deser_monty31: bool,
    /// Forced decisions for `==` (by decision index); used to explore non-default paths.
    pub forced: HashMap<usize, bool>,
    pub n_decisions: usize,
    /// If true, symbolic `==` does not consult shadows but always answers `true`
    /// (recording the decision) — "assume every check passes".
    pub assume_equal: bool,
    /// Shadow overrides by variable id (tamper sweeps: same symbols, altered concrete value).
    pub shadow_override: HashMap<u32, u64>,
}

impl Arena {
    pub fn new(p: u64) -> Self {
        Self {
            p,
            nodes: Vec::new(),
            shadows: Vec::new(),
            intern: HashMap::new(),
            events: Vec::new(),
            var_names: Vec::new(),
            var_nodes: Vec::new(),
            uf_names: Vec::new(),
            deser_fresh: false,
            deser_monty31: false,
            forced: HashMap::new(),
            n_decisions: 0,
            assume_equal: false,
            shadow_override: HashMap::new(),
        }
    }
    pub fn mk(&mut self, n: Node, shadow: u64) -> u32 {
        if let Some(&i) = self.intern.get(&n) {
            return i;
        }
        let i = self.nodes.len() as u32;
        self.nodes.push(n.clone());
        self.shadows.push(shadow);
        self.intern.insert(n, i);
        i
    }
    pub fn new_var(&mut self, name: String, shadow: u64) -> u32 {
        let id = self.var_names.len() as u32;
        self.var_names.push(name);
        let shadow = self.shadow_override.get(&id).copied().unwrap_or(shadow);
        let n = self.mk(Node::Var(id), shadow % self.p);
        self.var_nodes.push(n);
        n
    }
    pub fn uf_id(&mut self, name: &str) -> u32 {
        if let Some(i) = self.uf_names.iter().position(|n| n == name) {
            return i as u32;
        }
        self.uf_names.push(name.to_string());
        (self.uf_names.len() - 1) as u32
    }
    pub fn shadow(&self, h: H) -> u64 {
        match h {
            H::C(v) => v,
            H::N(i) => self.shadows[i as usize],
        }
    }
}

pub static ARENA: Mutex<Option<Arena>> = Mutex::new(None);

pub fn with_arena<R>(f: impl FnOnce(&mut Arena) -> R) -> R {
    let mut g = ARENA.lock().unwrap_or_else(|e| e.into_inner());
    f(g.as_mut().expect("arena not initialised: call symfield::reset::<Cfg>()"))
}

pub fn reset_with_modulus(p: u64) {
    let mut g = ARENA.lock().unwrap_or_else(|e| e.into_inner());
    *g = Some(Arena::new(p));
}

pub fn events() -> Vec<Event> {
    with_arena(|a| a.events.clone())
}
pub fn events_len() -> usize {
    with_arena(|a| a.events.len())
}
pub fn mark(s: &str) {
    with_arena(|a| a.events.push(Event::Mark(s.to_string())));
}
pub fn set_assume_equal(b: bool) {
    with_arena(|a| a.assume_equal = b);
}
pub fn set_deser_fresh(b: bool) {
    with_arena(|a| a.deser_fresh = b);
}
pub fn set_deser_monty31(b: bool) {
    with_arena(|a| a.deser_monty31 = b);
}

pub fn mulmod(a: u64, b: u64, p: u64) -> u64 {
    ((a as u128 * b as u128) % p as u128) as u64
}
pub fn addmod(a: u64, b: u64, p: u64) -> u64 {
    ((a as u128 + b as u128) % p as u128) as u64
}
pub fn submod(a: u64, b: u64, p: u64) -> u64 {
    ((a as u128 + p as u128 - (b % p) as u128) % p as u128) as u64
}
pub fn powmod(mut b: u64, mut e: u64, p: u64) -> u64 {
    let mut r = 1u64;
    b %= p;
    while e > 0 {
        if e & 1 == 1 {
            r = mulmod(r, b, p);
        }
        b = mulmod(b, b, p);
        e >>= 1;
    }
    r
}
pub fn invmod(a: u64, p: u64) -> u64 {
    powmod(a, p - 2, p)
}

/// Evaluate a term under a concrete assignment of variables (by var id) and UF oracle.
pub struct Evaluator<'a> {
    pub p: u64,
    pub vars: &'a dyn Fn(u32) -> u64,
    pub uf: &'a dyn Fn(u32, &[u64]) -> Vec<u64>,
    memo: HashMap<u32, Option<u64>>,
}

impl<'a> Evaluator<'a> {
    pub fn new(
        p: u64,
        vars: &'a dyn Fn(u32) -> u64,
        uf: &'a dyn Fn(u32, &[u64]) -> Vec<u64>,
    ) -> Self {
        Self { p, vars, uf, memo: HashMap::new() }
    }
    /// `None` = undefined (inverse of zero somewhere below).
    pub fn eval(&mut self, h: H) -> Option<u64> {
        match h {
            H::C(v) => Some(v),
            H::N(i) => {
                if let Some(v) = self.memo.get(&i) {
                    return *v;
                }
                let node = with_arena(|a| a.nodes[i as usize].clone());
                let p = self.p;
                let v = match node {
                    Node::Var(v) => Some((self.vars)(v) % p),
                    Node::Add(a, b) => self.eval(a).zip(self.eval(b)).map(|(a, b)| addmod(a, b, p)),
                    Node::Sub(a, b) => self.eval(a).zip(self.eval(b)).map(|(a, b)| submod(a, b, p)),
                    Node::Mul(a, b) => self.eval(a).zip(self.eval(b)).map(|(a, b)| mulmod(a, b, p)),
                    Node::Neg(a) => self.eval(a).map(|a| submod(0, a, p)),
                    Node::Inv(a) => self.eval(a).and_then(|a| if a == 0 { None } else { Some(invmod(a, p)) }),
                    Node::Uf { f, args, idx } => {
                        let mut vals = Vec::with_capacity(args.len());
                        let mut ok = true;
                        for a in args.iter() {
                            match self.eval(*a) {
                                Some(v) => vals.push(v),
                                None => {
                                    ok = false;
                                    break;
                                }
                            }
                        }
                        if ok { Some((self.uf)(f, &vals)[idx as usize] % p) } else { None }
                    }
                };
                self.memo.insert(i, v);
                v
            }
        }
    }
}

/// Number of distinct arena nodes reachable from `roots` (stops counting at `cap`).
pub fn dag_size(roots: &[H], cap: usize) -> usize {
    let mut seen = std::collections::HashSet::new();
    let mut stack: Vec<u32> = roots.iter().filter_map(|h| if let H::N(i) = h { Some(*i) } else { None }).collect();
    with_arena(|a| {
        while let Some(i) = stack.pop() {
            if !seen.insert(i) {
                continue;
            }
            if seen.len() >= cap {
                break;
            }
            let mut kid = |h: &H| {
                if let H::N(j) = h {
                    stack.push(*j);
                }
            };
            match &a.nodes[i as usize] {
                Node::Var(_) => {}
                Node::Add(x, y) | Node::Sub(x, y) | Node::Mul(x, y) => {
                    kid(x);
                    kid(y);
                }
                Node::Neg(x) | Node::Inv(x) => kid(x),
                // uninterpreted applications are opaque constants for the arithmetic core
                Node::Uf { .. } => {}
            }
        }
    });
    seen.len()
}

/// Size of the fully expanded (tree) form of the SMT macros for `roots`, saturating at `cap`.
/// Fraction-lifted nodes (anything above an `Inv`) count double (numerator and denominator).
pub fn expansion_size(roots: &[H], cap: u64) -> u64 {
    fn go(a: &Arena, i: u32, memo: &mut HashMap<u32, (u64, bool)>, cap: u64) -> (u64, bool) {
        if let Some(&r) = memo.get(&i) {
            return r;
        }
        let kid = |h: &H, memo: &mut HashMap<u32, (u64, bool)>| -> (u64, bool) {
            match h {
                H::C(_) => (1, false),
                H::N(j) => go(a, *j, memo, cap),
            }
        };
        let r = match &a.nodes[i as usize] {
            Node::Var(_) => (1, false),
            Node::Add(x, y) | Node::Sub(x, y) | Node::Mul(x, y) => {
                let (sx, fx) = kid(x, memo);
                let (sy, fy) = kid(y, memo);
                let f = fx || fy;
                let s = 1u64.saturating_add(sx).saturating_add(sy);
                (if f { s.saturating_mul(2) } else { s }.min(cap), f)
            }
            Node::Neg(x) => {
                let (sx, fx) = kid(x, memo);
                (sx.saturating_add(1).min(cap), fx)
            }
            Node::Inv(x) => {
                let (sx, _) = kid(x, memo);
                (sx.saturating_add(1).min(cap), true)
            }
            // hash chains nest uninterpreted applications deeply; z3 copes with those (the
            // blow-up this guard is for comes from arithmetic macros), so count them as leaves
            Node::Uf { .. } => (1, false),
        };
        memo.insert(i, r);
        r
    }
    with_arena(|a| {
        let mut memo = HashMap::new();
        let mut total = 0u64;
        for h in roots {
            if let H::N(i) = h {
                total = total.saturating_add(go(a, *i, &mut memo, cap).0);
            }
        }
        total.min(cap)
    })
}

/// Variables (and uninterpreted applications, as opaque atoms) occurring below `roots`.
pub fn atoms_of(roots: &[H], cap: usize) -> std::collections::HashSet<u32> {
    let mut seen = std::collections::HashSet::new();
    let mut out = std::collections::HashSet::new();
    let mut stack: Vec<u32> = roots.iter().filter_map(|h| if let H::N(i) = h { Some(*i) } else { None }).collect();
    with_arena(|a| {
        while let Some(i) = stack.pop() {
            if !seen.insert(i) || seen.len() > cap {
                continue;
            }
            match &a.nodes[i as usize] {
                Node::Var(_) => {
                    out.insert(i);
                }
                Node::Uf { .. } => {
                    out.insert(i);
                }
                Node::Add(x, y) | Node::Sub(x, y) | Node::Mul(x, y) => {
                    for h in [x, y] {
                        if let H::N(j) = h {
                            stack.push(*j);
                        }
                    }
                }
                Node::Neg(x) | Node::Inv(x) => {
                    if let H::N(j) = x {
                        stack.push(*j);
                    }
                }
            }
        }
    });
    out
}

pub fn set_shadow_override(var: u32, value: u64) {
    with_arena(|a| {
        a.shadow_override.insert(var, value);
    });
}

/// All variable ids occurring below `roots` (descends through uninterpreted applications).
pub fn vars_of(roots: &[H]) -> std::collections::BTreeSet<u32> {
    let mut seen = std::collections::HashSet::new();
    let mut out = std::collections::BTreeSet::new();
    let mut stack: Vec<u32> = roots.iter().filter_map(|h| if let H::N(i) = h { Some(*i) } else { None }).collect();
    with_arena(|a| {
        while let Some(i) = stack.pop() {
            if !seen.insert(i) {
                continue;
            }
            match &a.nodes[i as usize] {
                Node::Var(v) => {
                    out.insert(*v);
                }
                Node::Uf { args, .. } => {
                    for h in args.iter() {
                        if let H::N(j) = h {
                            stack.push(*j);
                        }
                    }
                }
                Node::Add(x, y) | Node::Sub(x, y) | Node::Mul(x, y) => {
                    for h in [x, y] {
                        if let H::N(j) = h {
                            stack.push(*j);
                        }
                    }
                }
                Node::Neg(x) | Node::Inv(x) => {
                    if let H::N(j) = x {
                        stack.push(*j);
                    }
                }
            }
        }
    });
    out
}
