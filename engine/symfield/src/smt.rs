//! SMT back end: arena terms -> SMT-LIB2 (`Int` with `mod P`, fraction lifting for `Inv`,
//! uninterpreted functions for permutations), one live solver process with push/pop.
use std::collections::{BTreeMap, BTreeSet, HashMap};
use std::io::{BufRead, BufReader, Write};
use std::process::{Child, ChildStdin, ChildStdout, Command, Stdio};
use std::time::{Duration, Instant};

use crate::arena::*;

/// Field-level formula over arena terms.
#[derive(Clone, Debug)]
pub enum Fm {
    True,
    False,
    Eq(H, H),
    Ne(H, H),
    And(Vec<Fm>),
    Or(Vec<Fm>),
    Not(Box<Fm>),
    /// Σ_i (if ∧_k a_ik == b_ik then m_i else 0) ≡ 0 (mod p): one LogUp balance equation.
    SumIf(Vec<(Vec<(H, H)>, u64)>),
}

impl Fm {
    pub fn and(v: Vec<Fm>) -> Fm {
        Fm::And(v)
    }
    pub fn or(v: Vec<Fm>) -> Fm {
        Fm::Or(v)
    }
    pub fn not(f: Fm) -> Fm {
        Fm::Not(Box::new(f))
    }
    pub fn roots(&self, out: &mut Vec<H>) {
        match self {
            Fm::True | Fm::False => {}
            Fm::Eq(a, b) | Fm::Ne(a, b) => {
                out.push(*a);
                out.push(*b);
            }
            Fm::And(v) | Fm::Or(v) => v.iter().for_each(|f| f.roots(out)),
            Fm::Not(f) => f.roots(out),
            Fm::SumIf(v) => {
                for (eqs, _) in v {
                    for (a, b) in eqs {
                        out.push(*a);
                        out.push(*b);
                    }
                }
            }
        }
    }
}

/// Convert the event log into formulas: (path condition atoms in order).
pub fn event_fm(e: &Event) -> Option<Fm> {
    match e {
        Event::Decide { l, r, eq: true } => Some(Fm::Eq(*l, *r)),
        Event::Decide { l, r, eq: false } => Some(Fm::Ne(*l, *r)),
        Event::NonZero(x) => Some(Fm::Ne(*x, H::C(0))),
        Event::IsZero(x) => Some(Fm::Eq(*x, H::C(0))),
        Event::Pin(x, v) => Some(Fm::Eq(*x, H::C(*v))),
        Event::Mark(_) => None,
    }
}

#[derive(Clone, Copy, Debug, PartialEq, Eq)]
pub enum SolverKind {
    Z3,
    Z3New,
    Cvc5,
}

#[derive(Clone, Debug, PartialEq, Eq)]
pub enum SatResult {
    Unsat,
    /// model: var id -> value
    Sat(BTreeMap<u32, u64>),
    Unknown(String),
}

#[derive(Default, Clone, Debug)]
pub struct SolverStats {
    pub queries: u64,
    pub unsat: u64,
    pub sat: u64,
    pub unknown: u64,
    pub solver_time_s: f64,
    pub max_query_s: f64,
}

pub struct Solver {
    pub kind: SolverKind,
    child: Child,
    stdin: ChildStdin,
    stdout: BufReader<ChildStdout>,
    pub p: u64,
    /// stack of (defined node ids, declared var ids, declared ufs)
    scopes: Vec<(BTreeSet<u32>, BTreeSet<u32>, BTreeSet<String>)>,
    has_den: HashMap<u32, bool>,
    /// expanded (tree) size of each defined node's macro; nodes above the threshold are emitted
    /// as named constants so that z3's macro expansion cannot blow up exponentially
    tree_size: HashMap<u32, u64>,
    pub name_threshold: u64,
    aux_count: u32,
    pub stats: SolverStats,
    pub transcript: Option<std::fs::File>,
    pub timeout_ms: u64,
    marker: u64,
    /// label of the obligation being discharged (for the slow-query log)
    pub label: String,
    pub slow: Vec<(f64, String, String)>,
}

impl Drop for Solver {
    fn drop(&mut self) {
        let _ = self.stdin.write_all(b"(exit)\n");
        let _ = self.child.kill();
        let _ = self.child.wait();
    }
}

impl Solver {
    pub fn new(kind: SolverKind, p: u64, timeout_ms: u64) -> Self {
        let mut cmd = match kind {
            SolverKind::Z3 => {
                // address-space cap: a runaway query dies instead of eating the machine
                let mut c = Command::new("sh");
                c.args(["-c", "ulimit -v 12000000; exec /usr/bin/z3 -in"]);
                c
            }
            SolverKind::Z3New => {
                let mut c = Command::new("sh");
                c.args(["-c", "ulimit -v 12000000; exec z3-new -in"]);
                c
            }
            SolverKind::Cvc5 => {
                let mut c = Command::new("cvc5");
                c.args([
                    "--lang",
                    "smt2",
                    "--incremental",
                    "--produce-models",
                    &format!("--tlimit-per={timeout_ms}"),
                ]);
                c
            }
        };
        let mut child = cmd
            .stdin(Stdio::piped())
            .stdout(Stdio::piped())
            .stderr(Stdio::null())
            .spawn()
            .expect("cannot spawn solver");
        let stdin = child.stdin.take().unwrap();
        let stdout = BufReader::new(child.stdout.take().unwrap());
        let mut s = Self {
            kind,
            child,
            stdin,
            stdout,
            p,
            scopes: vec![Default::default()],
            has_den: HashMap::new(),
            tree_size: HashMap::new(),
            name_threshold: u64::MAX,
            aux_count: 0,
            stats: Default::default(),
            transcript: None,
            timeout_ms,
            marker: 0,
            label: String::new(),
            slow: Vec::new(),
        };
        match kind {
            SolverKind::Cvc5 => s.send("(set-logic ALL)"),
            _ => {
                s.send("(set-logic ALL)");
                s.send(&format!("(set-option :timeout {timeout_ms})"));
            }
        }
        s
    }

    /// Change the per-query time limit (z3 only; cvc5 keeps its start-up limit).
    pub fn set_timeout(&mut self, ms: u64) {
        if self.kind != SolverKind::Cvc5 {
            self.send(&format!("(set-option :timeout {ms})"));
        }
    }

    pub fn set_transcript(&mut self, path: &std::path::Path) {
        if let Some(dir) = path.parent() {
            let _ = std::fs::create_dir_all(dir);
        }
        self.transcript = std::fs::File::create(path).ok();
    }

    fn send(&mut self, s: &str) {
        if let Some(t) = self.transcript.as_mut() {
            let _ = writeln!(t, "{s}");
        }
        if self.stdin.write_all(s.as_bytes()).is_err() {
            return;
        }
        let _ = self.stdin.write_all(b"\n");
    }

    /// Send a sync marker and read all output lines up to it.
    fn sync(&mut self) -> Vec<String> {
        self.marker += 1;
        let m = format!("SYNC{}", self.marker);
        self.send(&format!("(echo \"{m}\")"));
        let _ = self.stdin.flush();
        let mut out = Vec::new();
        loop {
            let mut line = String::new();
            let n = self.stdout.read_line(&mut line).unwrap_or(0);
            if n == 0 {
                out.push("(error \"solver died\")".to_string());
                break;
            }
            let t = line.trim();
            if t == m || t == format!("\"{m}\"") {
                break;
            }
            if !t.is_empty() {
                out.push(t.to_string());
            }
        }
        out
    }

    pub fn push(&mut self) {
        self.send("(push 1)");
        self.scopes.push(Default::default());
    }
    pub fn pop(&mut self) {
        self.send("(pop 1)");
        self.scopes.pop();
        assert!(!self.scopes.is_empty());
    }

    fn is_defined(&self, i: u32) -> bool {
        self.scopes.iter().any(|s| s.0.contains(&i))
    }
    fn var_declared(&self, v: u32) -> bool {
        self.scopes.iter().any(|s| s.1.contains(&v))
    }
    fn uf_declared(&self, n: &str) -> bool {
        self.scopes.iter().any(|s| s.2.contains(n))
    }

    fn num(&self, h: H) -> String {
        match h {
            H::C(v) => format!("{v}"),
            H::N(i) => format!("n{i}"),
        }
    }
    fn den(&self, h: H) -> Option<String> {
        match h {
            H::C(_) => None,
            H::N(i) => {
                if *self.has_den.get(&i).unwrap_or(&false) {
                    Some(format!("d{i}"))
                } else {
                    None
                }
            }
        }
    }

    /// Make sure all nodes reachable from `roots` are defined in the solver.
    pub fn define(&mut self, roots: &[H]) {
        // collect undefined reachable nodes
        let mut todo: Vec<u32> = roots
            .iter()
            .filter_map(|h| if let H::N(i) = h { Some(*i) } else { None })
            .collect();
        let mut need: BTreeSet<u32> = BTreeSet::new();
        let nodes: Vec<(u32, Node)> = with_arena(|a| {
            let mut out = Vec::new();
            while let Some(i) = todo.pop() {
                if need.contains(&i) || self.is_defined(i) {
                    continue;
                }
                need.insert(i);
                let n = a.nodes[i as usize].clone();
                let mut kid = |h: &H| {
                    if let H::N(j) = h {
                        todo.push(*j);
                    }
                };
                match &n {
                    Node::Var(_) => {}
                    Node::Add(x, y) | Node::Sub(x, y) | Node::Mul(x, y) => {
                        kid(x);
                        kid(y);
                    }
                    Node::Neg(x) | Node::Inv(x) => kid(x),
                    Node::Uf { args, .. } => args.iter().for_each(&mut kid),
                }
                out.push((i, n));
            }
            out.sort_by_key(|(i, _)| *i);
            out
        });
        let p = self.p;
        for (i, n) in nodes {
            let mut lines: Vec<String> = Vec::new();
            let hd = match &n {
                Node::Var(v) => {
                    if !self.var_declared(*v) {
                        lines.push(format!("(declare-const x{v} Int)"));
                        lines.push(format!("(assert (and (<= 0 x{v}) (< x{v} {p})))"));
                        self.scopes.last_mut().unwrap().1.insert(*v);
                    }
                    lines.push(format!("(define-fun n{i} () Int x{v})"));
                    false
                }
                Node::Add(x, y) | Node::Sub(x, y) => {
                    let op = if matches!(n, Node::Add(..)) { "+" } else { "-" };
                    match (self.den(*x), self.den(*y)) {
                        (None, None) => {
                            lines.push(format!(
                                "(define-fun n{i} () Int ({op} {} {}))",
                                self.num(*x),
                                self.num(*y)
                            ));
                            false
                        }
                        (dx, dy) => {
                            let dxs = dx.clone().unwrap_or("1".into());
                            let dys = dy.clone().unwrap_or("1".into());
                            lines.push(format!(
                                "(define-fun n{i} () Int ({op} (* {} {dys}) (* {} {dxs})))",
                                self.num(*x),
                                self.num(*y)
                            ));
                            lines.push(format!("(define-fun d{i} () Int (* {dxs} {dys}))"));
                            true
                        }
                    }
                }
                Node::Mul(x, y) => {
                    lines.push(format!(
                        "(define-fun n{i} () Int (* {} {}))",
                        self.num(*x),
                        self.num(*y)
                    ));
                    match (self.den(*x), self.den(*y)) {
                        (None, None) => false,
                        (dx, dy) => {
                            let dxs = dx.unwrap_or("1".into());
                            let dys = dy.unwrap_or("1".into());
                            lines.push(format!("(define-fun d{i} () Int (* {dxs} {dys}))"));
                            true
                        }
                    }
                }
                Node::Neg(x) => {
                    lines.push(format!("(define-fun n{i} () Int (- {}))", self.num(*x)));
                    if let Some(dx) = self.den(*x) {
                        lines.push(format!("(define-fun d{i} () Int {dx})"));
                        true
                    } else {
                        false
                    }
                }
                Node::Inv(x) => {
                    let dx = self.den(*x).unwrap_or("1".into());
                    lines.push(format!("(define-fun n{i} () Int {dx})"));
                    lines.push(format!("(define-fun d{i} () Int {})", self.num(*x)));
                    true
                }
                Node::Uf { f, args, idx } => {
                    let fname = with_arena(|a| a.uf_names[*f as usize].clone());
                    let name = format!("uf_{}_{}_{}", sanitize(&fname), args.len(), idx);
                    if !self.uf_declared(&name) {
                        let sig = vec!["Int"; args.len()].join(" ");
                        lines.push(format!("(declare-fun {name} ({sig}) Int)"));
                        self.scopes.last_mut().unwrap().2.insert(name.clone());
                    }
                    let mut argstrs = Vec::new();
                    for a in args.iter() {
                        match a {
                            H::C(v) => argstrs.push(format!("{v}")),
                            H::N(_) => {
                                if let Some(d) = self.den(*a) {
                                    // canonical value of a fraction: fresh aux var v with v*d == n (mod p)
                                    self.aux_count += 1;
                                    let v = format!("aux{}", self.aux_count);
                                    lines.push(format!("(declare-const {v} Int)"));
                                    lines.push(format!("(assert (and (<= 0 {v}) (< {v} {p})))"));
                                    lines.push(format!(
                                        "(assert (= (mod (- (* {v} {d}) {}) {p}) 0))",
                                        self.num(*a)
                                    ));
                                    argstrs.push(v);
                                } else {
                                    argstrs.push(format!("(mod {} {p})", self.num(*a)));
                                }
                            }
                        }
                    }
                    lines.push(format!("(define-fun n{i} () Int ({name} {}))", argstrs.join(" ")));
                    lines.push(format!("(assert (and (<= 0 n{i}) (< n{i} {p})))"));
                    false
                }
            };
            self.has_den.insert(i, hd);
            // expanded size of this node's macro = 1 + sizes of the child macros it mentions
            let kids: Vec<u32> = match &n {
                Node::Var(_) => vec![],
                Node::Add(x, y) | Node::Sub(x, y) | Node::Mul(x, y) => [x, y].iter().filter_map(|h| if let H::N(j) = h { Some(*j) } else { None }).collect(),
                Node::Neg(x) | Node::Inv(x) => [x].iter().filter_map(|h| if let H::N(j) = h { Some(*j) } else { None }).collect(),
                Node::Uf { args, .. } => args.iter().filter_map(|h| if let H::N(j) = h { Some(*j) } else { None }).collect(),
            };
            let mut size: u64 = 1;
            for k in &kids {
                size = size.saturating_add(self.tree_size.get(k).copied().unwrap_or(1).saturating_mul(if hd { 2 } else { 1 }));
            }
            let named = size > self.name_threshold;
            self.tree_size.insert(i, if named { 1 } else { size });
            for l in lines {
                if named && l.starts_with("(define-fun ") {
                    // (define-fun NAME () Int BODY)  ->  (declare-const NAME Int) (assert (= NAME BODY))
                    let rest = &l["(define-fun ".len()..];
                    let (name, body) = rest.split_once(" () Int ").expect("define-fun shape");
                    let body = &body[..body.len() - 1];
                    self.send(&format!("(declare-const {name} Int)"));
                    self.send(&format!("(assert (= {name} {body}))"));
                } else {
                    self.send(&l);
                }
            }
            self.scopes.last_mut().unwrap().0.insert(i);
        }
    }

    /// Terms whose integer encoding is already in `[0, P)`: constants, variables, UF outputs.
    fn is_canonical(&self, h: H) -> bool {
        match h {
            H::C(_) => true,
            H::N(i) => with_arena(|a| matches!(a.nodes[i as usize], Node::Var(_) | Node::Uf { .. })),
        }
    }

    fn atom_eq(&self, l: H, r: H) -> String {
        let p = self.p;
        match (self.den(l), self.den(r)) {
            (None, None) => match (l, r) {
                (H::C(a), H::C(b)) => {
                    if a == b {
                        "true".into()
                    } else {
                        "false".into()
                    }
                }
                _ if self.is_canonical(l) && self.is_canonical(r) => {
                    format!("(= {} {})", self.num(l), self.num(r))
                }
                _ => format!("(= (mod (- {} {}) {p}) 0)", self.num(l), self.num(r)),
            },
            (dl, dr) => {
                let dl = dl.unwrap_or("1".into());
                let dr = dr.unwrap_or("1".into());
                format!(
                    "(= (mod (- (* {} {dr}) (* {} {dl})) {p}) 0)",
                    self.num(l),
                    self.num(r)
                )
            }
        }
    }

    /// Integer expression of the cross-multiplied difference `l - r`.
    pub fn diff_smt(&self, l: H, r: H) -> String {
        match (self.den(l), self.den(r)) {
            (None, None) => format!("(- {} {})", self.num(l), self.num(r)),
            (dl, dr) => {
                let dl = dl.unwrap_or("1".into());
                let dr = dr.unwrap_or("1".into());
                format!("(- (* {} {dr}) (* {} {dl}))", self.num(l), self.num(r))
            }
        }
    }

    /// Ask the solver to validate an ideal-membership certificate:
    /// `mult·(gl - gr) == Σ cof_i·(hl_i - hr_i)  (mod p)` as a polynomial identity.
    /// `Unsat` = the identity holds for all values, hence `∧ h_i = 0 ∧ mult ≠ 0 ⟹ gl = gr`.
    pub fn certificate_check(
        &mut self,
        goal: (H, H),
        mult: Option<&crate::poly::Poly>,
        hyps: &[(H, H)],
        cof: &[crate::poly::Poly],
    ) -> SatResult {
        let mut roots = vec![goal.0, goal.1];
        for (l, r) in hyps {
            roots.push(*l);
            roots.push(*r);
        }
        self.define(&roots);
        let name = |v: u32| {
            if v >= crate::poly::OPAQUE_BASE { format!("n{}", v - crate::poly::OPAQUE_BASE) } else { format!("n{v}") }
        };
        let g = self.diff_smt(goal.0, goal.1);
        let g = match mult {
            Some(m) => format!("(* {} {g})", m.to_smt(&name)),
            None => g,
        };
        let mut sum = vec!["0".to_string()];
        for ((l, r), c) in hyps.iter().zip(cof) {
            if c.is_zero() {
                continue;
            }
            sum.push(format!("(* {} {})", c.to_smt(&name), self.diff_smt(*l, *r)));
        }
        let p = self.p;
        self.push();
        self.send(&format!("(assert (not (= (mod (- {g} (+ {})) {p}) 0)))", sum.join(" ")));
        let r = self.check();
        self.pop();
        r
    }

    pub fn fm_to_smt(&self, f: &Fm) -> String {
        match f {
            Fm::True => "true".into(),
            Fm::False => "false".into(),
            Fm::Eq(l, r) => self.atom_eq(*l, *r),
            Fm::Ne(l, r) => format!("(not {})", self.atom_eq(*l, *r)),
            Fm::And(v) => {
                if v.is_empty() {
                    "true".into()
                } else {
                    format!("(and {} true)", v.iter().map(|x| self.fm_to_smt(x)).collect::<Vec<_>>().join(" "))
                }
            }
            Fm::Or(v) => {
                if v.is_empty() {
                    "false".into()
                } else {
                    format!("(or {} false)", v.iter().map(|x| self.fm_to_smt(x)).collect::<Vec<_>>().join(" "))
                }
            }
            Fm::Not(x) => format!("(not {})", self.fm_to_smt(x)),
            Fm::SumIf(v) => {
                let mut terms = vec!["0".to_string()];
                for (eqs, m) in v {
                    let conds: Vec<String> = eqs.iter().map(|(a, b)| self.atom_eq(*a, *b)).collect();
                    terms.push(format!("(ite (and {} true) {m} 0)", conds.join(" ")));
                }
                format!("(= (mod (+ {}) {}) 0)", terms.join(" "), self.p)
            }
        }
    }

    pub fn assert_fm(&mut self, f: &Fm) {
        let mut roots = Vec::new();
        f.roots(&mut roots);
        self.define(&roots);
        let s = self.fm_to_smt(f);
        self.send(&format!("(assert {s})"));
    }

    /// Raw SMT assertion (for BV side conditions etc.)
    pub fn assert_raw(&mut self, s: &str) {
        self.send(&format!("(assert {s})"));
    }
    pub fn raw(&mut self, s: &str) {
        self.send(s);
    }
    /// Value of an integer constant in the current model (call right after a `sat` answer).
    pub fn get_int(&mut self, name: &str) -> Option<u64> {
        self.send(&format!("(get-value ({name}))"));
        let text = self.sync().join(" ");
        if text.contains("(error") {
            return None;
        }
        let toks: Vec<String> = text.replace('(', " ( ").replace(')', " ) ").split_whitespace().map(|s| s.to_string()).collect();
        let i = toks.iter().position(|t| t == name)?;
        let v = toks.get(i + 1)?;
        v.parse::<u64>().ok()
    }

    fn all_declared_vars(&self) -> Vec<u32> {
        self.scopes.iter().flat_map(|s| s.1.iter().copied()).collect()
    }

    pub fn check(&mut self) -> SatResult {
        self.check_with("(check-sat)")
    }

    /// `check-sat` after z3's own sum-of-monomials normalisation: polynomial identities
    /// (mod p) cancel syntactically instead of going to the non-linear arithmetic core.
    pub fn check_som(&mut self) -> SatResult {
        if self.kind == SolverKind::Cvc5 {
            return self.check();
        }
        self.check_with("(check-sat-using (then (! simplify :som true :som_blowup 1000000) smt))")
    }

    /// Restart the solver process after it died or was killed by the watchdog: the push depth
    /// is re-established and every definition is forgotten (re-sent lazily by `define`).
    fn respawn(&mut self) {
        let depth = self.scopes.len();
        let mut fresh = Solver::new(self.kind, self.p, self.timeout_ms);
        std::mem::swap(&mut self.child, &mut fresh.child);
        std::mem::swap(&mut self.stdin, &mut fresh.stdin);
        std::mem::swap(&mut self.stdout, &mut fresh.stdout);
        // `fresh` now owns the dead process and reaps it on drop
        drop(fresh);
        self.scopes = vec![Default::default()];
        for _ in 1..depth {
            self.push();
        }
        self.stats.unknown += 0;
    }

    fn check_with(&mut self, cmd: &str) -> SatResult {
        let t0 = Instant::now();
        // watchdog: z3 does not always honour :timeout inside its preprocessing; kill it when
        // it overstays, answer `unknown`, and continue with a fresh process
        let pid = self.child.id();
        let deadline = Duration::from_millis(self.timeout_ms.saturating_mul(2) + 5_000);
        let done = std::sync::Arc::new(std::sync::atomic::AtomicBool::new(false));
        let done2 = done.clone();
        let dog = std::thread::spawn(move || {
            let t = Instant::now();
            while t.elapsed() < deadline {
                if done2.load(std::sync::atomic::Ordering::SeqCst) {
                    return false;
                }
                std::thread::sleep(Duration::from_millis(50));
            }
            if !done2.load(std::sync::atomic::Ordering::SeqCst) {
                let _ = Command::new("kill").args(["-9", &pid.to_string()]).status();
                return true;
            }
            false
        });
        self.send(cmd);
        let out = self.sync();
        done.store(true, std::sync::atomic::Ordering::SeqCst);
        let killed = dog.join().unwrap_or(false);
        if killed || out.iter().any(|l| l.contains("solver died")) {
            self.stats.queries += 1;
            self.stats.unknown += 1;
            self.stats.solver_time_s += t0.elapsed().as_secs_f64();
            self.slow.push((t0.elapsed().as_secs_f64(), self.label.clone(), "killed-by-watchdog".into()));
            self.respawn();
            return SatResult::Unknown("solver exceeded the wall-clock limit or died; restarted".into());
        }
        let dt = t0.elapsed().as_secs_f64();
        self.stats.queries += 1;
        self.stats.solver_time_s += dt;
        if dt > self.stats.max_query_s {
            self.stats.max_query_s = dt;
        }
        if dt > 1.0 {
            self.slow.push((dt, self.label.clone(), out.last().cloned().unwrap_or_default()));
        }
        if out.iter().any(|l| l.contains("(error")) {
            self.stats.unknown += 1;
            return SatResult::Unknown(format!("solver error: {}", out.join(" | ")));
        }
        let last = out.last().cloned().unwrap_or_default();
        match last.as_str() {
            "unsat" => {
                self.stats.unsat += 1;
                SatResult::Unsat
            }
            "sat" => {
                self.stats.sat += 1;
                let vars = self.all_declared_vars();
                let mut model = BTreeMap::new();
                if !vars.is_empty() {
                    let names: Vec<String> = vars.iter().map(|v| format!("x{v}")).collect();
                    self.send(&format!("(get-value ({}))", names.join(" ")));
                    let lines = self.sync();
                    let text = lines.join(" ");
                    if text.contains("(error") {
                        return SatResult::Unknown(format!("get-value error: {text}"));
                    }
                    parse_values(&text, &mut model);
                }
                SatResult::Sat(model)
            }
            other => {
                self.stats.unknown += 1;
                SatResult::Unknown(other.to_string())
            }
        }
    }

    /// push; assert all; check (with sum-of-monomials normalisation); pop.
    pub fn query_som(&mut self, fms: &[Fm]) -> SatResult {
        self.push();
        for f in fms {
            self.assert_fm(f);
        }
        let r = self.check_som();
        self.pop();
        r
    }

    /// push; assert all; check; pop.
    pub fn query(&mut self, fms: &[Fm]) -> SatResult {
        self.push();
        for f in fms {
            self.assert_fm(f);
        }
        let r = self.check();
        self.pop();
        r
    }
    pub fn elapsed_budget(&self) -> Duration {
        Duration::from_millis(self.timeout_ms)
    }
}

fn sanitize(s: &str) -> String {
    s.chars().map(|c| if c.is_ascii_alphanumeric() { c } else { '_' }).collect()
}

/// Parse `((x0 3) (x1 (- 5)) ...)` into the model map (values reduced into u64).
fn parse_values(text: &str, model: &mut BTreeMap<u32, u64>) {
    let toks: Vec<String> = text
        .replace('(', " ( ")
        .replace(')', " ) ")
        .split_whitespace()
        .map(|s| s.to_string())
        .collect();
    let mut i = 0;
    while i < toks.len() {
        if toks[i].starts_with('x') && toks[i][1..].chars().all(|c| c.is_ascii_digit()) && toks[i].len() > 1 {
            let v: u32 = toks[i][1..].parse().unwrap();
            // next token(s): number or ( - number )
            let mut j = i + 1;
            let val: Option<i128> = if j < toks.len() && toks[j] == "(" {
                j += 1;
                if j + 1 < toks.len() && toks[j] == "-" {
                    toks[j + 1].parse::<i128>().ok().map(|x| -x)
                } else {
                    None
                }
            } else if j < toks.len() {
                toks[j].parse::<i128>().ok()
            } else {
                None
            };
            if let Some(x) = val {
                model.insert(v, x.rem_euclid(u64::MAX as i128 + 1) as u64);
            }
        }
        i += 1;
    }
}

/// Decide `hyps ⟹ goal` by asking for `hyps ∧ ¬goal`. Returns Unsat when the implication holds.
pub fn implies(s: &mut Solver, hyps: &[Fm], goal: &Fm) -> SatResult {
    let mut v: Vec<Fm> = hyps.to_vec();
    v.push(Fm::not(goal.clone()));
    s.query(&v)
}
