//! symfield: engine E1 of /verif — symbolic execution of field-generic Plonky3 code by
//! instantiating its field type parameter with `SymF`, plus the SMT back end.
pub mod arena;
pub mod normal;
pub mod perm;
pub mod poly;
pub mod rewrite;
pub mod smt;
pub mod symf;

pub use arena::*;
pub use normal::*;
pub use perm::*;
pub use poly::*;
pub use rewrite::*;
pub use smt::*;
pub use symf::*;
