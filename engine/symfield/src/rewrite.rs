//! Equality-directed rewriting of arena terms (sound preprocessing for the solver).
//!
//! Given hypotheses `l == r`, terms are rebuilt bottom-up replacing the chosen side by the
//! other one. Under the hypotheses (which stay asserted) the rewritten term is equal to the
//! original, so `hyps ∧ ¬goal` and `hyps ∧ ¬rewrite(goal)` are equisatisfiable. This turns
//! most congruence-style obligations into plain polynomial identities, which the SMT
//! solver decides by normalisation; everything else is left to the solver unchanged.
use std::collections::HashMap;

use crate::arena::*;
use crate::smt::Fm;

#[derive(Default)]
pub struct Rewriter {
    /// node id -> replacement
    pub subst: HashMap<u32, H>,
    memo: HashMap<u32, H>,
    p: u64,
}

fn mk_bin(p: u64, op: u8, a: H, b: H) -> H {
    // mirror SymF's folding so rebuilt terms hash-cons with executor-built ones
    match (op, a, b) {
        (0, H::C(x), H::C(y)) => return H::C(addmod(x, y, p)),
        (1, H::C(x), H::C(y)) => return H::C(submod(x, y, p)),
        (2, H::C(x), H::C(y)) => return H::C(mulmod(x, y, p)),
        (0, H::C(0), y) => return y,
        (0, x, H::C(0)) => return x,
        (1, x, H::C(0)) => return x,
        (2, H::C(0), _) | (2, _, H::C(0)) => return H::C(0),
        (2, H::C(1), y) => return y,
        (2, x, H::C(1)) => return x,
        _ => {}
    }
    if op == 1 && a == b {
        return H::C(0);
    }
    // commutative operands are kept in handle order (as SymF does)
    let (a, b) = if op != 1 && b < a { (b, a) } else { (a, b) };
    with_arena(|ar| {
        let sh = match op {
            0 => addmod(ar.shadow(a), ar.shadow(b), p),
            1 => submod(ar.shadow(a), ar.shadow(b), p),
            _ => mulmod(ar.shadow(a), ar.shadow(b), p),
        };
        let n = match op {
            0 => Node::Add(a, b),
            1 => Node::Sub(a, b),
            _ => Node::Mul(a, b),
        };
        H::N(ar.mk(n, sh))
    })
}

pub fn h_add(p: u64, a: H, b: H) -> H {
    mk_bin(p, 0, a, b)
}
pub fn h_sub(p: u64, a: H, b: H) -> H {
    mk_bin(p, 1, a, b)
}
pub fn h_mul(p: u64, a: H, b: H) -> H {
    mk_bin(p, 2, a, b)
}

impl Rewriter {
    pub fn new(p: u64) -> Self {
        Self { subst: HashMap::new(), memo: HashMap::new(), p }
    }

    pub fn canon(&mut self, h: H) -> H {
        let i = match h {
            H::C(_) => return h,
            H::N(i) => i,
        };
        if let Some(&r) = self.memo.get(&i) {
            return r;
        }
        if let Some(&s) = self.subst.get(&i) {
            let r = self.canon(s);
            self.memo.insert(i, r);
            return r;
        }
        let node = with_arena(|a| a.nodes[i as usize].clone());
        let p = self.p;
        let rebuilt = match node {
            Node::Var(_) => h,
            Node::Add(a, b) => {
                let (a, b) = (self.canon(a), self.canon(b));
                mk_bin(p, 0, a, b)
            }
            Node::Sub(a, b) => {
                let (a, b) = (self.canon(a), self.canon(b));
                mk_bin(p, 1, a, b)
            }
            Node::Mul(a, b) => {
                let (a, b) = (self.canon(a), self.canon(b));
                mk_bin(p, 2, a, b)
            }
            Node::Neg(a) => {
                let a = self.canon(a);
                match a {
                    H::C(x) => H::C(submod(0, x, p)),
                    _ => with_arena(|ar| {
                        let sh = submod(0, ar.shadow(a), p);
                        H::N(ar.mk(Node::Neg(a), sh))
                    }),
                }
            }
            Node::Inv(a) => {
                let a = self.canon(a);
                match a {
                    H::C(x) if x != 0 => H::C(invmod(x, p)),
                    _ => with_arena(|ar| {
                        let s = ar.shadow(a);
                        let sh = if s == 0 { 0 } else { invmod(s, p) };
                        H::N(ar.mk(Node::Inv(a), sh))
                    }),
                }
            }
            Node::Uf { f, args, idx } => {
                let args: Vec<H> = args.iter().map(|a| self.canon(*a)).collect();
                with_arena(|ar| {
                    let sh = ar.shadows[i as usize];
                    H::N(ar.mk(Node::Uf { f, args: args.into_boxed_slice(), idx }, sh))
                })
            }
        };
        // the rebuilt node may itself be substituted
        let r = match rebuilt {
            H::N(j) if j != i => self.canon(rebuilt),
            _ => rebuilt,
        };
        self.memo.insert(i, r);
        r
    }

    fn occurs(&self, var: u32, h: H) -> bool {
        let mut stack = vec![h];
        let mut seen = std::collections::HashSet::new();
        while let Some(h) = stack.pop() {
            if let H::N(i) = h {
                if i == var {
                    return true;
                }
                if !seen.insert(i) {
                    continue;
                }
                with_arena(|a| match &a.nodes[i as usize] {
                    Node::Var(_) => {}
                    Node::Add(x, y) | Node::Sub(x, y) | Node::Mul(x, y) => {
                        stack.push(*x);
                        stack.push(*y);
                    }
                    Node::Neg(x) | Node::Inv(x) => stack.push(*x),
                    Node::Uf { args, .. } => stack.extend(args.iter().copied()),
                });
            }
        }
        false
    }

    fn is_var(h: H) -> Option<u32> {
        match h {
            H::N(i) => with_arena(|a| matches!(a.nodes[i as usize], Node::Var(_))).then_some(i),
            _ => None,
        }
    }

    /// Orient `l == r` into a substitution when possible. `prefer_old`: replace the term with
    /// the larger node id by the smaller (older) one when neither side is a bare variable.
    /// Returns true if a substitution was recorded.
    pub fn add_eq(&mut self, l: H, r: H, vars_only: bool) -> bool {
        let cl = self.canon(l);
        let cr = self.canon(r);
        if cl == cr {
            return true;
        }
        let p = self.p;
        let set = |this: &mut Self, from: u32, to: H| {
            this.subst.insert(from, to);
            this.memo.clear();
            true
        };
        if let Some(v) = Self::is_var(cl) {
            if !self.occurs(v, cr) {
                return set(self, v, cr);
            }
        }
        if let Some(v) = Self::is_var(cr) {
            if !self.occurs(v, cl) {
                return set(self, v, cl);
            }
        }
        // linear position: (x + v) == t  =>  v := t - x ; (x - v) == t => v := x - t ; (v - x) == t => v := t + x
        for (s, t) in [(cl, cr), (cr, cl)] {
            if let H::N(i) = s {
                let node = with_arena(|a| a.nodes[i as usize].clone());
                match node {
                    Node::Add(x, y) => {
                        for (x, y) in [(x, y), (y, x)] {
                            if let Some(v) = Self::is_var(y) {
                                if !self.occurs(v, x) && !self.occurs(v, t) {
                                    let rhs = mk_bin(p, 1, t, x);
                                    return set(self, v, rhs);
                                }
                            }
                        }
                    }
                    Node::Sub(x, y) => {
                        if let Some(v) = Self::is_var(y) {
                            if !self.occurs(v, x) && !self.occurs(v, t) {
                                let rhs = mk_bin(p, 1, x, t);
                                return set(self, v, rhs);
                            }
                        }
                        if let Some(v) = Self::is_var(x) {
                            if !self.occurs(v, y) && !self.occurs(v, t) {
                                let rhs = mk_bin(p, 0, t, y);
                                return set(self, v, rhs);
                            }
                        }
                    }
                    _ => {}
                }
            }
        }
        if vars_only {
            return false;
        }
        // general: replace the newer node by the older one
        match (cl, cr) {
            (H::N(a), H::N(b)) => {
                let (from, to) = if a > b { (a, cr) } else { (b, cl) };
                if let H::N(t) = to {
                    if self.occurs(from, H::N(t)) {
                        return false;
                    }
                }
                set(self, from, to)
            }
            (H::N(a), c @ H::C(_)) | (c @ H::C(_), H::N(a)) => set(self, a, c),
            _ => false,
        }
    }

    /// Cheap orientation for very large term sets: replace the newer node by the older one
    /// without canonicalising first (substitution chains are resolved lazily by `canon`, whose
    /// memo is never invalidated). Sound for the same reason as `add_eq`.
    pub fn add_eq_fast(&mut self, l: H, r: H) {
        let (from, to) = match (l, r) {
            (H::N(a), H::N(b)) if a != b => {
                if a > b { (a, r) } else { (b, l) }
            }
            (H::N(a), c @ H::C(_)) | (c @ H::C(_), H::N(a)) => (a, c),
            _ => return,
        };
        if self.subst.contains_key(&from) {
            return;
        }
        if let H::N(t) = to {
            if self.occurs(from, H::N(t)) {
                return;
            }
        }
        self.subst.insert(from, to);
    }

    pub fn canon_fm(&mut self, f: &Fm) -> Fm {
        match f {
            Fm::True | Fm::False => f.clone(),
            Fm::Eq(a, b) => {
                let (a, b) = (self.canon(*a), self.canon(*b));
                if a == b { Fm::True } else { Fm::Eq(a, b) }
            }
            Fm::Ne(a, b) => {
                let (a, b) = (self.canon(*a), self.canon(*b));
                if a == b { Fm::False } else { Fm::Ne(a, b) }
            }
            Fm::And(v) => Fm::And(v.iter().map(|x| self.canon_fm(x)).collect()),
            Fm::Or(v) => Fm::Or(v.iter().map(|x| self.canon_fm(x)).collect()),
            Fm::Not(x) => Fm::Not(Box::new(self.canon_fm(x))),
            Fm::SumIf(v) => Fm::SumIf(
                v.iter().map(|(eqs, m)| (eqs.iter().map(|(a, b)| (self.canon(*a), self.canon(*b))).collect(), *m)).collect(),
            ),
        }
    }
}
