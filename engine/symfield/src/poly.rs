//! Sparse multivariate polynomials mod P, used only to *search* for ideal-membership
//! certificates `g = Σ c_i·h_i`. The certificate itself is checked by the SMT solver (a
//! polynomial identity over the original term encodings), so nothing here is trusted.
use std::collections::{BTreeMap, HashMap};

use crate::arena::*;

/// Monomial: sorted (var, exp) with var descending = most significant first (lex order,
/// newer variables larger). Opaque nodes (UF applications) get pseudo-variable ids >= 1<<30.
pub type Mono = Vec<(u32, u32)>;

#[derive(Clone, Debug, PartialEq, Eq)]
pub struct Poly {
    pub p: u64,
    pub t: BTreeMap<Mono, u64>,
}

pub const MAX_TERMS: usize = 60000;

fn mono_mul(a: &Mono, b: &Mono) -> Mono {
    let mut out: Mono = Vec::with_capacity(a.len() + b.len());
    let (mut i, mut j) = (0, 0);
    while i < a.len() && j < b.len() {
        if a[i].0 == b[j].0 {
            out.push((a[i].0, a[i].1 + b[j].1));
            i += 1;
            j += 1;
        } else if a[i].0 > b[j].0 {
            out.push(a[i]);
            i += 1;
        } else {
            out.push(b[j]);
            j += 1;
        }
    }
    out.extend_from_slice(&a[i..]);
    out.extend_from_slice(&b[j..]);
    out
}

/// a / b if b divides a
fn mono_div(a: &Mono, b: &Mono) -> Option<Mono> {
    let mut out = Vec::new();
    let mut j = 0;
    for &(v, e) in a {
        if j < b.len() && b[j].0 == v {
            if b[j].1 > e {
                return None;
            }
            if e > b[j].1 {
                out.push((v, e - b[j].1));
            }
            j += 1;
        } else {
            if j < b.len() && b[j].0 > v {
                return None;
            }
            out.push((v, e));
        }
    }
    if j < b.len() { None } else { Some(out) }
}

impl Poly {
    pub fn zero(p: u64) -> Self {
        Self { p, t: BTreeMap::new() }
    }
    pub fn constant(p: u64, c: u64) -> Self {
        let mut s = Self::zero(p);
        if c % p != 0 {
            s.t.insert(vec![], c % p);
        }
        s
    }
    pub fn var(p: u64, v: u32) -> Self {
        let mut s = Self::zero(p);
        s.t.insert(vec![(v, 1)], 1);
        s
    }
    pub fn is_zero(&self) -> bool {
        self.t.is_empty()
    }
    pub fn add(&self, o: &Self) -> Self {
        let mut r = self.clone();
        for (m, c) in &o.t {
            let e = r.t.entry(m.clone()).or_insert(0);
            *e = addmod(*e, *c, self.p);
            if *e == 0 {
                r.t.remove(m);
            }
        }
        r
    }
    pub fn neg(&self) -> Self {
        let mut r = self.clone();
        for c in r.t.values_mut() {
            *c = submod(0, *c, self.p);
        }
        r
    }
    pub fn sub(&self, o: &Self) -> Self {
        self.add(&o.neg())
    }
    pub fn mul(&self, o: &Self) -> Option<Self> {
        self.mul_cap(o, MAX_TERMS)
    }
    pub fn mul_cap(&self, o: &Self, cap: usize) -> Option<Self> {
        #[allow(non_snake_case)]
        let max_terms = cap;
        if self.t.len() * o.t.len() > max_terms * 64 {
            return None;
        }
        let mut r = Self::zero(self.p);
        for (m1, c1) in &self.t {
            for (m2, c2) in &o.t {
                let m = mono_mul(m1, m2);
                let c = mulmod(*c1, *c2, self.p);
                let e = r.t.entry(m.clone()).or_insert(0);
                *e = addmod(*e, c, self.p);
                if *e == 0 {
                    r.t.remove(&m);
                }
            }
        }
        if r.t.len() > max_terms { None } else { Some(r) }
    }
    pub fn scale_mono(&self, m: &Mono, c: u64) -> Self {
        let mut r = Self::zero(self.p);
        for (m1, c1) in &self.t {
            r.t.insert(mono_mul(m1, m), mulmod(*c1, c, self.p));
        }
        r
    }
    /// leading term under the monomial order (largest key: compare as sequences).
    pub fn lead(&self) -> Option<(Mono, u64)> {
        self.t.iter().max_by(|a, b| cmp_mono(a.0, b.0)).map(|(m, c)| (m.clone(), *c))
    }
    /// SMT-LIB integer expression of this polynomial (vars named via `name`).
    pub fn to_smt(&self, name: &dyn Fn(u32) -> String) -> String {
        if self.t.is_empty() {
            return "0".into();
        }
        let mut terms = Vec::new();
        for (m, c) in &self.t {
            let mut fs = vec![format!("{c}")];
            for &(v, e) in m {
                for _ in 0..e {
                    fs.push(name(v));
                }
            }
            if fs.len() == 1 { terms.push(fs.pop().unwrap()) } else { terms.push(format!("(* {})", fs.join(" "))) }
        }
        if terms.len() == 1 { terms.pop().unwrap() } else { format!("(+ {})", terms.join(" ")) }
    }
}

fn cmp_mono(a: &Mono, b: &Mono) -> std::cmp::Ordering {
    // lex with larger var id more significant; vectors are sorted by var descending
    let mut i = 0;
    loop {
        match (a.get(i), b.get(i)) {
            (None, None) => return std::cmp::Ordering::Equal,
            (None, Some(_)) => return std::cmp::Ordering::Less,
            (Some(_), None) => return std::cmp::Ordering::Greater,
            (Some(x), Some(y)) => {
                if x.0 != y.0 {
                    return x.0.cmp(&y.0);
                }
                if x.1 != y.1 {
                    return x.1.cmp(&y.1);
                }
            }
        }
        i += 1;
    }
}

/// Converts arena terms into (numerator, denominator) polynomial pairs.
pub struct PolyCtx {
    pub p: u64,
    memo: HashMap<u32, Option<(Poly, Poly)>>,
    /// pseudo variable -> arena node (opaque UF applications)
    pub opaque: BTreeMap<u32, u32>,
}

pub const OPAQUE_BASE: u32 = 1 << 30;

impl PolyCtx {
    pub fn new(p: u64) -> Self {
        Self { p, memo: HashMap::new(), opaque: BTreeMap::new() }
    }
    pub fn frac(&mut self, h: H) -> Option<(Poly, Poly)> {
        let p = self.p;
        let i = match h {
            H::C(v) => return Some((Poly::constant(p, v), Poly::constant(p, 1))),
            H::N(i) => i,
        };
        if let Some(r) = self.memo.get(&i) {
            return r.clone();
        }
        let node = with_arena(|a| a.nodes[i as usize].clone());
        let r: Option<(Poly, Poly)> = (|| match node {
            Node::Var(_) => Some((Poly::var(p, i), Poly::constant(p, 1))),
            Node::Add(a, b) | Node::Sub(a, b) => {
                let sub = matches!(node, Node::Sub(..));
                let (na, da) = self.frac(a)?;
                let (nb, db) = self.frac(b)?;
                let l = na.mul(&db)?;
                let r = nb.mul(&da)?;
                Some((if sub { l.sub(&r) } else { l.add(&r) }, da.mul(&db)?))
            }
            Node::Mul(a, b) => {
                let (na, da) = self.frac(a)?;
                let (nb, db) = self.frac(b)?;
                Some((na.mul(&nb)?, da.mul(&db)?))
            }
            Node::Neg(a) => {
                let (na, da) = self.frac(a)?;
                Some((na.neg(), da))
            }
            Node::Inv(a) => {
                let (na, da) = self.frac(a)?;
                Some((da, na))
            }
            Node::Uf { .. } => {
                let v = OPAQUE_BASE + i;
                self.opaque.insert(v, i);
                Some((Poly::var(p, v), Poly::constant(p, 1)))
            }
        })();
        self.memo.insert(i, r.clone());
        r
    }
    /// Cross-multiplied difference polynomial of `l == r`.
    pub fn diff(&mut self, l: H, r: H) -> Option<Poly> {
        let (nl, dl) = self.frac(l)?;
        let (nr, dr) = self.frac(r)?;
        Some(nl.mul(&dr)?.sub(&nr.mul(&dl)?))
    }
}

/// Multivariate division of `g` by `hs`: returns (remainder, cofactors) with
/// g = Σ cof_i·h_i + remainder. Bounded work; `None` when the bound is hit.
pub fn reduce(g: &Poly, hs: &[Poly]) -> Option<(Poly, Vec<Poly>)> {
    reduce_steps(g, hs, 3000)
}

pub fn reduce_steps(g: &Poly, hs: &[Poly], max_steps: usize) -> Option<(Poly, Vec<Poly>)> {
    let p = g.p;
    let mut rem_in = g.clone();
    let mut rem_out = Poly::zero(p);
    let mut cof: Vec<Poly> = hs.iter().map(|_| Poly::zero(p)).collect();
    let leads: Vec<Option<(Mono, u64)>> = hs.iter().map(|h| h.lead()).collect();
    let mut steps = 0;
    while let Some((m, c)) = rem_in.lead() {
        steps += 1;
        if steps > max_steps || rem_in.t.len() > MAX_TERMS {
            return None;
        }
        let mut reduced = false;
        for (i, l) in leads.iter().enumerate() {
            let Some((lm, lc)) = l else { continue };
            if let Some(q) = mono_div(&m, lm) {
                let coef = mulmod(c, invmod(*lc, p), p);
                let sub = hs[i].scale_mono(&q, coef);
                rem_in = rem_in.sub(&sub);
                let mut qp = Poly::zero(p);
                qp.t.insert(q, coef);
                cof[i] = cof[i].add(&qp);
                reduced = true;
                break;
            }
        }
        if !reduced {
            rem_in.t.remove(&m);
            rem_out.t.insert(m, c);
        }
    }
    Some((rem_out, cof))
}
